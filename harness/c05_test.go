package harness

import (
	"fmt"
	"math"
	"sort"
	"testing"

	"github.com/RoaringBitmap/roaring"
	segment "github.com/blugelabs/bluge_segment_api"
	"pgregory.net/rapid"
)

// C05 — postings iterators navigate correctly under Next/Advance, exclusions and flags.
const c05Rule = "case = posting list (fixed chunk sizes 1..7 on few-document batches, adaptive multi-chunk on >1024-document batches, 1-hit encoded terms of merged segments, absent terms) " +
	"x exclusion bitmap (nil/empty/random/superset/with foreign numbers) x the three flags x optional ReplaceActual(subset) before the first step x a drawn history of Next/Advance(d) " +
	"(d relative to the cursor: successor, next hit, same chunk, next chunk boundary, far, beyond the end; calls repeated after the end); oracle = filtered model list + cursor, checked after every call; " +
	"non-trivial = list spans >=2 chunks and the history has an Advance that skips >=1 posting, or an exclusion removes a posting between two returned ones; distinct = hash of case text + history"

type c05Target struct {
	c     *SegCase
	field string
	term  string
	list  []XPosting
}

func genC05Target(t *rapid.T, ctx *Ctx, sc *Scenario, fam int) (*c05Target, error) {
	var c *SegCase
	var err error
	switch fam {
	case FamHuge:
		c, err = GenCase(t, ctx, sc, CaseCfg{Family: FamHuge, MaxIn: 2, HoldAny: true}, rapid.SampledFrom([]int{0, 0, 0, 1}).Draw(t, "depth"), "c")
	case FamWide:
		c, err = GenCase(t, ctx, sc, CaseCfg{Family: FamWide, MaxIn: 2, HoldAny: true}, rapid.SampledFrom([]int{0, 0, 1}).Draw(t, "depth"), "c")
	case FamSparse:
		c, err = GenCase(t, ctx, sc, CaseCfg{Family: FamSparse, MaxIn: 2, HoldAny: true}, rapid.SampledFrom([]int{0, 0, 1}).Draw(t, "depth"), "c")
	default:
		src := rapid.IntRange(0, 4).Draw(t, "source")
		switch src {
		case 0: // generic small case incl. merges (1-hit terms)
			c, err = GenCase(t, ctx, sc, CaseCfg{Family: FamSmall, MaxDocs: 10, MaxIn: 3, HoldAny: true}, rapid.SampledFrom([]int{0, 1, 2}).Draw(t, "depth"), "c")
		default: // posting-list-focused batch, possibly merged with another one
			mk := func(label string) (*SegCase, error) {
				b := genPostingBatch(t, sc)
				mode := rapid.SampledFrom([]uint32{1, 2, 3, 4, 5, 7, 1025}).Draw(t, label+":mode")
				if !HooksOn {
					mode = 1025
				}
				seg, err := Build(b, sc.Norm, mode)
				if err != nil {
					return nil, err
				}
				lc := &SegCase{Seg: seg, Exp: Expect(b, sc.Norm.F), Docs: b, Mode: mode, Desc: fmt.Sprintf("built(mode=%d){%s}", mode, b)}
				if h := rapid.IntRange(holdBuilt, holdMmap).Draw(t, label+":hold"); h != holdBuilt {
					if err := lc.reload(ctx, h); err != nil {
						return nil, err
					}
				}
				return lc, nil
			}
			c, err = mk("p")
			if err == nil && src >= 3 {
				var c2 *SegCase
				c2, err = mk("q")
				if err == nil {
					drops := []*roaring.Bitmap{GenDrops(t, c.Exp.N, "p"), GenDrops(t, c2.Exp.N, "q")}
					mode := rapid.SampledFrom([]uint32{1, 2, 3, 5, 1025}).Draw(t, "outMode")
					if !HooksOn {
						mode = 1025
					}
					ins := []*SegCase{c, c2}
					c, _, err = MergeCases(ctx, ins, drops, mode, rapid.IntRange(holdMem, holdMmap).Draw(t, "mhold"))
					if err == nil {
						mergeLabels(c, ins, drops)
					}
				}
			}
		}
	}
	if err != nil {
		return nil, err
	}
	// choose a (field, term): mostly existing, sometimes absent
	type ft struct{ f, t string }
	var all []ft
	for _, f := range c.Exp.Fields {
		for _, tm := range sortedKeys(c.Exp.Post[f]) {
			all = append(all, ft{f, tm})
		}
	}
	tg := &c05Target{c: c}
	if len(all) == 0 || rapid.IntRange(0, 39).Draw(t, "absent") == 0 {
		tg.field = rapid.SampledFrom([]string{"a", UnknownField, "_id"}).Draw(t, "absField")
		tg.term = "no-such-term"
		return tg, nil
	}
	// prefer the longest list half of the time
	idx := rapid.IntRange(0, len(all)-1).Draw(t, "termIdx")
	switch rapid.IntRange(0, 6).Draw(t, "prefer") {
	case 0, 1, 2: // the longest list
		best := 0
		for i, x := range all {
			if len(c.Exp.Post[x.f][x.t]) > len(c.Exp.Post[all[best].f][all[best].t]) {
				best = i
			}
		}
		idx = best
	case 3, 4: // a term that a merge encodes as 1-hit
		if c.Merged {
			for i, x := range all {
				pl := c.Exp.Post[x.f][x.t]
				if len(pl) == 1 && pl[0].Freq == 1 && len(pl[0].Locs) == 0 {
					idx = i
					break
				}
			}
		}
	}
	tg.field, tg.term = all[idx].f, all[idx].t
	tg.list = c.Exp.Post[tg.field][tg.term]
	return tg, nil
}

func genExcept(t *rapid.T, n int, list []XPosting) (*roaring.Bitmap, string) {
	kind := rapid.IntRange(0, 5).Draw(t, "exceptKind")
	switch kind {
	case 0:
		return nil, "nil"
	case 1:
		return roaring.New(), "empty"
	case 2: // superset of the postings
		bm := roaring.New()
		bm.AddRange(0, uint64(n)+3)
		return bm, "superset"
	}
	bm := roaring.New()
	if len(list) <= 30 {
		for _, p := range list {
			if rapid.IntRange(0, 2).Draw(t, "ex") == 0 {
				bm.Add(uint32(p.Doc))
			}
		}
		// some non-posting documents too
		for i := 0; i < n; i += 1 + rapid.IntRange(1, 5).Draw(t, "exStride") {
			bm.Add(uint32(i))
		}
	} else {
		per := rapid.IntRange(2, 11).Draw(t, "exPer")
		off := rapid.IntRange(0, per-1).Draw(t, "exOff")
		for i := off; i < n; i += per {
			bm.Add(uint32(i))
		}
		if rapid.Bool().Draw(t, "exRange") {
			lo := rapid.IntRange(0, n-1).Draw(t, "exLo")
			bm.AddRange(uint64(lo), uint64(lo+rapid.IntRange(1, 1500).Draw(t, "exLen")))
		}
	}
	if kind == 5 { // foreign numbers beyond the segment, in other containers
		bm.Add(uint32(n + 5))
		bm.Add(uint32(n + 70000))
		bm.Add(math.MaxUint32)
	}
	return bm, bmString(bm)
}

func chunkSizeOf(mode uint32, card, n int) uint64 {
	if mode <= 1024 {
		return uint64(mode)
	}
	return uint64(n) / (uint64(card)/1024 + 1)
}

func c05Prop(st *CaseStats, fam int) func(t *rapid.T) {
	return func(t *rapid.T) {
		ctx := &Ctx{}
		defer ctx.Close()
		sc := GenScenario(t)
		tg, err := genC05Target(t, ctx, sc, fam)
		if err != nil {
			t.Fatalf("%s: %v", sc, err)
		}
		c := tg.c
		except, exDesc := genExcept(t, c.Exp.N, tg.list)
		incF, incN, incL := rapid.Bool().Draw(t, "freq"), rapid.Bool().Draw(t, "norm"), rapid.Bool().Draw(t, "locs")
		any := incF || incN || incL
		desc := fmt.Sprintf("%s %s term %q/%q except=%s flags=%v/%v/%v", sc, c.Desc, tg.field, tg.term, exDesc, incF, incN, incL)

		var exceptCopy *roaring.Bitmap
		if except != nil {
			exceptCopy = except.Clone()
		}
		// model: live list
		var live []XPosting
		for _, p := range tg.list {
			if except == nil || !except.Contains(uint32(p.Doc)) {
				live = append(live, p)
			}
		}
		if rapid.IntRange(0, 2).Draw(t, "reuseIdiomFirst") == 0 {
			// the usual reuse idiom over misses and hits, stopping early, before the iterator under test is made
			err := safely("reuse idiom", func() error {
				var rpl segment.PostingsList
				var rit segment.PostingsIterator
				for _, f := range c.Exp.Fields {
					d, err := c.Seg.Dictionary(f)
					if err != nil {
						return err
					}
					for _, tm := range append([]string{"absent-first"}, sortedKeys(c.Exp.Post[f])...) {
						if rpl, err = d.PostingsList([]byte(tm), nil, rpl); err != nil {
							return err
						}
						if rit, err = rpl.Iterator(true, true, true, rit); err != nil {
							return err
						}
						if _, err = rit.Next(); err != nil {
							return err
						}
					}
				}
				return nil
			})
			if err != nil {
				t.Fatalf("%s: %v", desc, err)
			}
		}
		var pl segment.PostingsList
		var it segment.PostingsIterator
		err = safely("PostingsList/Iterator", func() error {
			d, err := c.Seg.Dictionary(tg.field)
			if err != nil {
				return err
			}
			pl, err = d.PostingsList([]byte(tg.term), except, nil)
			if err != nil {
				return err
			}
			it, err = pl.Iterator(incF, incN, incL, nil)
			return err
		})
		if err != nil {
			t.Fatalf("%s: %v", desc, err)
		}
		if pl.Count() != uint64(len(live)) || it.Count() != uint64(len(live)) {
			t.Fatalf("%s:\n  Count: list %d iterator %d, expected %d non-excluded postings", desc, pl.Count(), it.Count(), len(live))
		}
		labels := c.LabelList()
		is1Hit := false
		replaced := false
		var replacedBM, replacedCopy *roaring.Bitmap
		if opt, ok := it.(segment.OptimizablePostingsIterator); ok {
			if _, one := opt.DocNum1Hit(); one {
				is1Hit = true
				labels = append(labels, "1-hit")
			}
			if abm := opt.ActualBitmap(); abm != nil && !is1Hit && rapid.IntRange(0, 3).Draw(t, "replaceActual") == 0 {
				// a subset of the actual bitmap, as Bluge's conjunction optimiser passes
				sub := roaring.New()
				per := rapid.IntRange(1, 4).Draw(t, "subPer")
				for i, d := range abm.ToArray() {
					if i%per == 0 {
						sub.Add(d)
					}
				}
				var nl []XPosting
				for _, p := range live {
					if sub.Contains(uint32(p.Doc)) {
						nl = append(nl, p)
					}
				}
				live = nl
				opt.ReplaceActual(sub)
				desc += fmt.Sprintf(" ReplaceActual(%s)", bmString(sub))
				if rapid.IntRange(0, 2).Draw(t, "replaceAgain") == 0 && !sub.IsEmpty() {
					// Bluge keeps ONE intersection bitmap and narrows it in place: the caller removes numbers from
					// its own bitmap and hands the same object in again; the iterator follows the new contents
					arr := sub.ToArray()
					switch rapid.IntRange(0, 2).Draw(t, "narrowHow") {
					case 0: // drop a tail
						from := rapid.IntRange(0, len(arr)-1).Draw(t, "narrowFrom")
						for _, d := range arr[from:] {
							sub.Remove(d)
						}
					case 1: // drop every other one
						for i, d := range arr {
							if i%2 == 1 {
								sub.Remove(d)
							}
						}
					default: // drop the head
						sub.Remove(arr[0])
					}
					nl = nil
					for _, p := range live {
						if sub.Contains(uint32(p.Doc)) {
							nl = append(nl, p)
						}
					}
					live = nl
					opt.ReplaceActual(sub)
					labels = append(labels, "replace-actual-same-bitmap-narrowed")
					desc += fmt.Sprintf(" narrowed in place, ReplaceActual(%s) again", bmString(sub))
				}
				replacedBM, replacedCopy = sub, sub.Clone()
				replaced = true
				labels = append(labels, "replace-actual")
			}
		}
		cs := uint64(1)
		if len(tg.list) > 0 {
			cs = chunkSizeOf(c.Mode, len(tg.list), c.Exp.N)
			if cs == 0 {
				cs = 1
			}
		}
		chunks := map[uint64]bool{}
		for _, p := range tg.list {
			chunks[p.Doc/cs] = true
		}
		// history
		renumber := rapid.Bool().Draw(t, "renumberReturnedPostings")
		if renumber {
			labels = append(labels, "returned-postings-renumbered")
		}
		nSteps := rapid.IntRange(1, 25).Draw(t, "nSteps")
		idx := 0
		last := int64(-1)
		lastTarget := uint64(0)
		hist := ""
		skipped, exclBetween, afterEnd, acrossChunk, withinChunk, beyond32 := false, false, false, false, false, false
		maxDoc := uint64(c.Exp.N) + 5
		for s := 0; s < nSteps; s++ {
			var got segment.Posting
			var want *XPosting
			isAdv := rapid.IntRange(0, 2).Draw(t, "op") > 0
			prevIdx := idx
			if !isAdv {
				hist += " Next"
				err = safely("Next", func() error { var e error; got, e = it.Next(); return e })
				if idx < len(live) {
					want = &live[idx]
					idx++
				}
			} else {
				lo := uint64(last + 1)
				if lastTarget > lo {
					lo = lastTarget
				}
				var d uint64
				switch rapid.IntRange(0, 12).Draw(t, "advKind") {
				case 12: // one of the last three postings of the list (the highest-numbered chunks)
					if idx < len(live) {
						j := len(live) - 1 - rapid.IntRange(0, 2).Draw(t, "fromEnd")
						if j < idx {
							j = idx
						}
						d = live[j].Doc
					}
				case 11: // beyond the 32-bit document number space: nothing can be at or after such a target
					d = rapid.SampledFrom([]uint64{1 << 32, 1<<32 + 1, 1 << 33, 5 << 32, 1 << 63, math.MaxUint64, math.MaxUint32}).Draw(t, "beyond32")
					if idx < len(live) && rapid.Bool().Draw(t, "beyond32low") {
						// the low 32 bits name a posting that is still ahead
						d = uint64(rapid.IntRange(1, 3).Draw(t, "beyond32k"))<<32 + live[rapid.IntRange(idx, len(live)-1).Draw(t, "beyond32hit")].Doc
					}
					beyond32 = true
				case 10: // around the next 65536 boundary (next roaring container)
					d = ((lo>>16)+1)<<16 - 1 + uint64(rapid.IntRange(0, 2).Draw(t, "containerJitter"))
				case 0:
					d = lo
				case 1, 2: // exactly the next live hit, or one past it
					if idx < len(live) {
						d = live[idx].Doc + uint64(rapid.IntRange(0, 1).Draw(t, "plus"))
					}
				case 3: // a live hit a little further away
					if idx < len(live) {
						hi := idx + 4
						if hi > len(live)-1 {
							hi = len(live) - 1
						}
						d = live[rapid.IntRange(idx, hi).Draw(t, "hit")].Doc
					}
				case 4: // next chunk boundary
					d = (lo/cs + 1) * cs
				case 5, 6:
					d = lo + uint64(rapid.IntRange(0, 6).Draw(t, "delta"))
				case 7:
					d = lo + uint64(rapid.IntRange(0, 40).Draw(t, "delta40"))
				case 8:
					d = lo + uint64(rapid.IntRange(0, c.Exp.N+1).Draw(t, "far"))
				default:
					d = maxDoc + uint64(rapid.IntRange(0, 100000).Draw(t, "beyond"))
				}
				if d < lo {
					d = lo
				}
				lastTarget = d
				hist += fmt.Sprintf(" Adv(%d)", d)
				err = safely("Advance", func() error { var e error; got, e = it.Advance(d); return e })
				j := idx + sort.Search(len(live)-idx, func(k int) bool { return live[idx+k].Doc >= d })
				if j < len(live) {
					want = &live[j]
					if j > idx {
						skipped = true
						if last >= 0 && live[j].Doc/cs != uint64(last)/cs {
							acrossChunk = true
						} else {
							withinChunk = true
						}
					}
					idx = j + 1
				} else {
					idx = len(live)
				}
			}
			if err != nil {
				t.Fatalf("%s\n  history%s: %v", desc, hist, err)
			}
			if want == nil {
				if got != nil {
					t.Fatalf("%s\n  history%s: expected nil (end), got posting %d", desc, hist, got.Number())
				}
				if prevIdx >= len(live) {
					afterEnd = true
				}
				continue
			}
			if got == nil {
				t.Fatalf("%s\n  history%s: expected posting %d, got nil", desc, hist, want.Doc)
			}
			g := XPosting{Doc: got.Number(), Freq: got.Frequency(), Norm: float32(got.Norm()), Locs: copyLocs(got.Locations())}
			if renumber {
				// an index reader renumbers the postings it is handed (segment base + local number): the
				// iterator must not take its bearings from the posting it gave away
				got.SetNumber(got.Number() + 1000000)
			}
			w := *want
			if !any {
				g.Freq, g.Norm, w.Freq, w.Norm = 0, 0, 0, 0
			}
			if !incL {
				w.Locs = nil
			}
			if !postingEq(w, g) {
				t.Fatalf("%s\n  history%s: expected %+v, got %+v", desc, hist, w, g)
			}
			// exclusion removed a posting of the full list between two returned ones
			if last >= 0 {
				for _, p := range tg.list {
					if int64(p.Doc) > last && p.Doc < g.Doc && except != nil && except.Contains(uint32(p.Doc)) {
						exclBetween = true
					}
				}
			}
			last = int64(g.Doc)
		}
		if !replaced {
			// Count() does not depend on how far the iterator has been consumed
			var liveN int
			for _, p := range tg.list {
				if except == nil || !except.Contains(uint32(p.Doc)) {
					liveN++
				}
			}
			if n := it.Count(); n != uint64(liveN) {
				t.Fatalf("%s\n  history%s:\n  after the history the iterator's Count() is %d, the list has %d non-excluded postings", desc, hist, n, liveN)
			}
		}
		if replacedBM != nil && len(tg.list) > 0 {
			// the bitmap handed to ReplaceActual stays the caller's (Bluge shares one intersection bitmap between
			// several iterators): reusing the iterator for another list, with an exclusion, must not write to it
			err = safely("reuse after ReplaceActual", func() error {
				d, err := c.Seg.Dictionary(tg.field)
				if err != nil {
					return err
				}
				ex := roaring.BitmapOf(uint32(tg.list[0].Doc))
				pl2, err := d.PostingsList([]byte(tg.term), ex, nil)
				if err != nil {
					return err
				}
				it2, err := pl2.Iterator(true, true, true, it)
				if err != nil {
					return err
				}
				_, err = it2.Next()
				return err
			})
			if err != nil {
				t.Fatalf("%s\n  history%s: reusing the iterator after ReplaceActual: %v", desc, hist, err)
			}
			if !replacedBM.Equals(replacedCopy) {
				t.Fatalf("%s\n  history%s:\n  the bitmap handed to ReplaceActual changed from %s to %s when its iterator was reused for another list", desc, hist, bmString(replacedCopy), bmString(replacedBM))
			}
			labels = append(labels, "iterator-reused-after-ReplaceActual")
		}
		// the iterator of an absent term is empty whatever happened before: Count 0, nil, and nil again
		err = safely("absent term", func() error {
			d, err := c.Seg.Dictionary(tg.field)
			if err != nil {
				return err
			}
			apl, err := d.PostingsList([]byte(absentProbeTerm), nil, nil)
			if err != nil {
				return err
			}
			ait, err := apl.Iterator(incF, incN, incL, nil)
			if err != nil {
				return err
			}
			if apl.Count() != 0 || ait.Count() != 0 {
				return fmt.Errorf("absent term: Count list %d iterator %d", apl.Count(), ait.Count())
			}
			for k := 0; k < 2; k++ {
				if p, err := ait.Next(); p != nil || err != nil {
					return fmt.Errorf("absent term: Next returned %v, %v", p, err)
				}
			}
			if p, err := ait.Advance(3); p != nil || err != nil {
				return fmt.Errorf("absent term: Advance returned %v, %v", p, err)
			}
			return nil
		})
		if err != nil {
			t.Fatalf("%s\n  history%s: %v", desc, hist, err)
		}
		if except != nil && !except.Equals(exceptCopy) {
			t.Fatalf("%s\n  history%s: the exclusion bitmap was modified", desc, hist)
		}
		if len(chunks) >= 2 {
			labels = append(labels, "multi-chunk-list")
		}
		if withinChunk {
			labels = append(labels, "skip-within-chunk")
		}
		if acrossChunk {
			labels = append(labels, "skip-across-chunk")
		}
		if afterEnd {
			labels = append(labels, "after-end")
		}
		if beyond32 {
			labels = append(labels, "advance-target>=2^32")
		}
		if except != nil && !except.IsEmpty() || replaced {
			labels = append(labels, "exclusion-path")
		} else {
			labels = append(labels, "clean-path")
		}
		if exclBetween {
			labels = append(labels, "exclusion-between-returned")
		}
		if len(tg.list) == 0 {
			labels = append(labels, "absent-term")
		}
		labels = append(labels, fmt.Sprintf("flags-%v-%v-%v", incF, incN, incL))
		nt := (len(chunks) >= 2 && skipped) || exclBetween
		st.Record(desc+" history"+hist, nt, dedup(labels)...)
	}
}

func TestC05Small(t *testing.T) {
	st := NewStats("C05Small", c05Rule)
	defer st.Flush()
	rapid.Check(t, c05Prop(st, FamSmall))
}

func TestC05Wide(t *testing.T) {
	st := NewStats("C05Wide", c05Rule)
	defer st.Flush()
	rapid.Check(t, c05Prop(st, FamWide))
}

func TestC05Huge(t *testing.T) {
	st := NewStats("C05Huge", c05Rule)
	defer st.Flush()
	rapid.Check(t, c05Prop(st, FamHuge))
}

func TestC05Sparse(t *testing.T) {
	st := NewStats("C05Sparse", c05Rule)
	defer st.Flush()
	rapid.Check(t, c05Prop(st, FamSparse))
}
