package harness

// Helpers that build, persist, load and merge segments, with panics turned
// into errors.

import (
	"bufio"
	"bytes"
	"fmt"
	"os"
	"sync"
	"syscall"

	"github.com/RoaringBitmap/roaring"
	segment "github.com/blugelabs/bluge_segment_api"
	ice "github.com/blugelabs/ice/v2"
)

// Ctx owns the temp files of one case.
type Ctx struct {
	files []*os.File
	maps  [][]byte
}

var tmpDirOnce sync.Once
var tmpDir string

func scratchDir() string {
	tmpDirOnce.Do(func() {
		base := os.Getenv("VERIF_SCRATCH")
		if base == "" {
			base = os.TempDir()
		}
		d, err := os.MkdirTemp(base, "iceverif-")
		if err != nil {
			panic(err)
		}
		tmpDir = d
	})
	return tmpDir
}

func (c *Ctx) Close() {
	for _, m := range c.maps {
		_ = syscall.Munmap(m)
	}
	c.maps = nil
	for _, f := range c.files {
		f.Close()
		os.Remove(f.Name())
	}
	c.files = nil
}

// Build runs the builder with an explicit chunk mode (through the hook).
func Build(b Batch, norm NormFn, mode uint32) (seg segment.Segment, err error) {
	err = safely("New", func() error {
		var e error
		seg, _, e = hookNew(b.Docs(), norm.F, mode)
		return e
	})
	return seg, err
}

// openCloseCh returns, as a pure function of the segment, either nil or a
// close channel that is never closed: both are ordinary uses of WriteTo.
func openCloseCh(seg segment.Segment) chan struct{} {
	if seg.Count()%2 == 1 {
		return make(chan struct{})
	}
	return nil
}

// Persist writes the segment and checks the returned byte count.
func Persist(seg segment.Segment) (out []byte, err error) {
	return PersistCh(seg, openCloseCh(seg))
}

// PersistCh is Persist with the given close channel (nil or never closed).
func PersistCh(seg segment.Segment, closeCh chan struct{}) (out []byte, err error) {
	err = safely("WriteTo", func() error {
		var buf bytes.Buffer
		// the destination may already hold bytes of the caller's (a container header, earlier files)
		pre := 0
		if seg.Count()%3 == 1 {
			buf.WriteString("CALLER-HEADER")
			pre = buf.Len()
		}
		n, e := seg.WriteTo(&buf, closeCh)
		if e != nil {
			return e
		}
		if n != int64(buf.Len()-pre) {
			return fmt.Errorf("WriteTo returned %d but wrote %d bytes (behind %d bytes the destination already held)", n, buf.Len()-pre, pre)
		}
		out = buf.Bytes()[pre:]
		return nil
	})
	return out, err
}

// PersistBufio writes the segment into the caller's own *bufio.Writer of the
// given size (bufio.NewWriter hands such a writer back unchanged when asked to
// wrap it), flushes it as its owner would, and returns the bytes that arrived
// and the count WriteTo reported.
func PersistBufio(seg segment.Segment, size int) (out []byte, n int64, err error) {
	err = safely("WriteTo(bufio destination)", func() error {
		var dst bytes.Buffer
		own := bufio.NewWriterSize(&dst, size)
		var e error
		n, e = seg.WriteTo(own, nil)
		if e != nil {
			return e
		}
		if e = own.Flush(); e != nil {
			return e
		}
		out = dst.Bytes()
		return nil
	})
	return out, n, err
}

func LoadMem(b []byte) (seg segment.Segment, err error) {
	err = safely("Load(memory)", func() error {
		// exact-capacity copy: a memory-backed Data must not rely on bytes
		// beyond the file
		cp := make([]byte, len(b))
		copy(cp, b)
		var e error
		seg, e = ice.Load(segment.NewDataBytes(cp[:len(cp):len(cp)]))
		return e
	})
	return seg, err
}

func (c *Ctx) writeTemp(b []byte) (*os.File, error) {
	f, err := os.CreateTemp(scratchDir(), "seg-*.ice")
	if err != nil {
		return nil, err
	}
	c.files = append(c.files, f)
	if _, err := f.Write(b); err != nil {
		return nil, err
	}
	return f, nil
}

func (c *Ctx) LoadFile(b []byte) (seg segment.Segment, err error) {
	f, err := c.writeTemp(b)
	if err != nil {
		return nil, fmt.Errorf("INFRA: %v", err)
	}
	err = safely("Load(file)", func() error {
		data, e := segment.NewDataFile(f)
		if e != nil {
			return e
		}
		seg, e = ice.Load(data)
		return e
	})
	return seg, err
}

// LoadMmap loads the segment from a READ-ONLY memory mapping of a temp file
// holding b: any write of the library into the segment's own memory faults
// (safely turns the fault into a reported panic).
func (c *Ctx) LoadMmap(b []byte) (seg segment.Segment, err error) {
	if len(b) == 0 {
		return LoadMem(b)
	}
	f, err := c.writeTemp(b)
	if err != nil {
		return nil, fmt.Errorf("INFRA: %v", err)
	}
	m, err := syscall.Mmap(int(f.Fd()), 0, len(b), syscall.PROT_READ, syscall.MAP_SHARED)
	if err != nil {
		return nil, fmt.Errorf("INFRA: mmap: %v", err)
	}
	c.maps = append(c.maps, m)
	err = safely("Load(read-only mapping)", func() error {
		var e error
		seg, e = ice.Load(segment.NewDataBytes(m))
		return e
	})
	return seg, err
}

// MergeBytes merges with an explicit output chunk mode and returns the file.
func MergeBytes(segs []segment.Segment, drops []*roaring.Bitmap, mode uint32) (out []byte, maps [][]uint64, err error) {
	err = safely("merge", func() error {
		var buf bytes.Buffer
		var closeCh chan struct{}
		if len(segs) > 0 {
			closeCh = openCloseCh(segs[0])
		}
		m, n, e := hookMerge(segs, drops, &buf, mode, closeCh)
		if e != nil {
			return e
		}
		if n != uint64(buf.Len()) {
			return fmt.Errorf("merge returned %d but wrote %d bytes", n, buf.Len())
		}
		out, maps = buf.Bytes(), m
		return nil
	})
	return out, maps, err
}

// PublicMerge merges through the public API.
func PublicMerge(segs []segment.Segment, drops []*roaring.Bitmap, bufSize int) (out []byte, maps [][]uint64, err error) {
	err = safely("Merge.WriteTo", func() error {
		var buf bytes.Buffer
		m := ice.Merge(segs, drops, bufSize)
		var closeCh chan struct{}
		if len(segs) > 0 {
			closeCh = openCloseCh(segs[0])
		}
		pre := 0
		if len(segs) > 0 && segs[0].Count()%3 != 1 {
			buf.WriteString("CALLER-HEADER")
			pre = buf.Len()
		}
		n, e := m.WriteTo(&buf, closeCh)
		if e != nil {
			return e
		}
		if n != int64(buf.Len()-pre) {
			return fmt.Errorf("Merger.WriteTo returned %d but wrote %d bytes (behind %d bytes the destination already held)", n, buf.Len()-pre, pre)
		}
		out, maps = buf.Bytes()[pre:], m.DocumentNumbers()
		return nil
	})
	return out, maps, err
}
