package harness

// Plain, library-free replays of shrunk failures (one per confirmed defect).

import (
	"testing"

	"github.com/RoaringBitmap/roaring"
	segment "github.com/blugelabs/bluge_segment_api"
	ice "github.com/blugelabs/ice/v2"
)

func mustBuild(t *testing.T, b Batch, mode uint32) segment.Segment {
	t.Helper()
	s, err := Build(b, normFns[0], mode)
	if err != nil {
		t.Fatal(err)
	}
	return s
}

// F2: merge where nothing survives reports no document numbers.
func TestC03Regress(t *testing.T) {
	b := Batch{{Fields: []Field{{Name: "_id", Len: 1, Terms: []Term{{T: "x", Freq: 1}}}}}, {}}
	for _, tc := range []struct {
		name  string
		segs  []segment.Segment
		drops []*roaring.Bitmap
		lens  []int
	}{
		{"single empty segment", []segment.Segment{mustBuild(t, nil, 1025)}, []*roaring.Bitmap{nil}, []int{0}},
		{"everything dropped", []segment.Segment{mustBuild(t, b, 1025), mustBuild(t, b, 1025)},
			[]*roaring.Bitmap{roaring.BitmapOf(0, 1), roaring.BitmapOf(0, 1)}, []int{2, 2}},
	} {
		bs, maps, err := PublicMerge(tc.segs, tc.drops, 0)
		if err != nil {
			t.Fatalf("%s: %v", tc.name, err)
		}
		if len(maps) != len(tc.lens) {
			t.Fatalf("F2 %s: DocumentNumbers has %d slices for %d inputs", tc.name, len(maps), len(tc.lens))
		}
		for i, l := range tc.lens {
			if len(maps[i]) != l {
				t.Fatalf("F2 %s: DocumentNumbers[%d] has length %d, want %d", tc.name, i, len(maps[i]), l)
			}
			for _, v := range maps[i] {
				if v != DocDropped {
					t.Fatalf("F2 %s: dropped document mapped to %d", tc.name, v)
				}
			}
		}
		s, err := LoadMem(bs)
		if err != nil {
			t.Fatalf("F3 %s: %v", tc.name, err)
		}
		if s.Count() != 0 {
			t.Fatalf("%s: count %d", tc.name, s.Count())
		}
	}
}

// F3: the file written by a zero-survivor merge cannot be loaded.
func TestC04Regress(t *testing.T) {
	ctx := &Ctx{}
	defer ctx.Close()
	b := Batch{{}, {}, {Fields: []Field{{Name: "a", Len: 2, DV: true, Store: true, Value: "v", Terms: []Term{{T: "x", Freq: 2, Locs: []Loc{{Pos: 1}}}}}}}}
	bs, _, err := MergeBytes([]segment.Segment{mustBuild(t, b, 2)}, []*roaring.Bitmap{roaring.BitmapOf(0, 1, 2)}, 5)
	if err != nil {
		t.Fatal(err)
	}
	m, err := LoadMem(bs)
	if err != nil {
		t.Fatalf("F3 memory-backed: %v", err)
	}
	f, err := ctx.LoadFile(bs)
	if err != nil {
		t.Fatalf("F3 file-backed: %v", err)
	}
	exp, _ := MergeExpect([]*XSeg{Expect(b, normFns[0].F)}, []*roaring.Bitmap{roaring.BitmapOf(0, 1, 2)})
	for _, s := range []segment.Segment{m, f} {
		obs, err := Observe(s, ProbeFields, AllFacets)
		if err != nil {
			t.Fatal(err)
		}
		if d := Diff(exp, obs, AllFacets); d != "" {
			t.Fatalf("F3: %s", d)
		}
	}
}

// F4: short record at the end of a stored chunk.
func TestC06Regress(t *testing.T) {
	ctx := &Ctx{}
	defer ctx.Close()
	b := Batch{{}, {Fields: []Field{{Name: "zz", Store: true, Value: "b "},
		{Name: "a", Store: true, Value: "abababababababababababababababababababababababababababababab"}}}, {}}
	exp := Expect(b, normFns[0].F)
	seg := mustBuild(t, b, 5)
	bs, err := Persist(seg)
	if err != nil {
		t.Fatal(err)
	}
	fs, err := ctx.LoadFile(bs)
	if err != nil {
		t.Fatal(err)
	}
	ms, err := LoadMem(bs)
	if err != nil {
		t.Fatal(err)
	}
	for _, s := range []segment.Segment{fs, ms, seg} {
		for _, v := range []visit{{2, 2}, {2, 1}, {0, 0}, {1, 0}, {2, 0}} {
			if err := runVisit(s, exp, v); err != nil {
				t.Fatalf("F4: %v", err)
			}
		}
	}
	// blocks variant: a block 8..16 bytes larger than the previously visited one
	p := BlocksParams{N: 300, TermPer: 1, ValPos: []int{3, 5, 7}, ValLen: []int{0, 12, 2}, LastShort: true}
	sc := &Scenario{Schema: map[string]int{}, Norm: normFns[0]}
	bb := p.Batch(sc)
	bexp := Expect(bb, normFns[0].F)
	bseg := mustBuild(t, bb, 1025)
	for _, v := range []visit{{0, 0}, {255, 0}, {127, 0}, {299, 0}, {255, 0}} {
		if err := runVisit(bseg, bexp, v); err != nil {
			t.Fatalf("F4 blocks: %v", err)
		}
	}
}

// F5: dictionary entry counts after a 1-hit encoded term.
func TestC08Regress(t *testing.T) {
	b := Batch{
		{Fields: []Field{{Name: "_id", Len: 3, Terms: []Term{{T: "", Freq: 1}, {T: "\x00", Freq: 2}}}}},
		{Fields: []Field{{Name: "_id", Len: 1, Terms: []Term{{T: "\x00", Freq: 1}}}}},
	}
	bs, _, err := MergeBytes([]segment.Segment{mustBuild(t, nil, 1), mustBuild(t, b, 1)}, []*roaring.Bitmap{nil, nil}, 1)
	if err != nil {
		t.Fatal(err)
	}
	m, err := LoadMem(bs)
	if err != nil {
		t.Fatal(err)
	}
	obs, err := Observe(m, ProbeFields, Facets{Postings: true, Counts: true})
	if err != nil {
		t.Fatal(err)
	}
	exp, _ := MergeExpect([]*XSeg{Expect(nil, normFns[0].F), Expect(b, normFns[0].F)}, []*roaring.Bitmap{nil, nil})
	if d := Diff(exp, obs, Facets{Postings: true, Counts: true}); d != "" {
		t.Fatalf("F5: %s", d)
	}
}

// F12: Count() on the iterator of an absent term.
func TestC05Regress(t *testing.T) {
	seg := mustBuild(t, Batch{{Fields: []Field{{Name: "a", Len: 1, Terms: []Term{{T: "x", Freq: 1}}}}}}, 1025)
	for _, ft := range [][2]string{{"a", "absent"}, {UnknownField, "x"}} {
		err := safely("absent term", func() error {
			d, err := seg.Dictionary(ft[0])
			if err != nil {
				return err
			}
			pl, err := d.PostingsList([]byte(ft[1]), nil, nil)
			if err != nil {
				return err
			}
			it, err := pl.Iterator(true, true, true, nil)
			if err != nil {
				return err
			}
			if pl.Count() != 0 || it.Count() != 0 {
				t.Fatalf("F12: counts %d/%d", pl.Count(), it.Count())
			}
			p, err := it.Next()
			if p != nil || err != nil {
				t.Fatalf("F12: Next on empty iterator: %v %v", p, err)
			}
			return nil
		})
		if err != nil {
			t.Fatalf("F12 (%s/%s): %v", ft[0], ft[1], err)
		}
	}
}

// F13: Iterator over an empty [k,k) range whose bound is an existing term.
func TestC08RegressRange(t *testing.T) {
	seg := mustBuild(t, Batch{{Fields: []Field{{Name: "title", Len: 1, Terms: []Term{{T: "\x00", Freq: 1}, {T: "b", Freq: 1}}}}}}, 1)
	d, err := seg.Dictionary("title")
	if err != nil {
		t.Fatal(err)
	}
	for _, k := range []string{"\x00", "b"} {
		it := d.Iterator(nil, []byte(k), []byte(k))
		e, err := it.Next()
		if err != nil || e != nil {
			t.Fatalf("F13: empty range [%q,%q) returned %v, %v", k, k, e, err)
		}
	}
	it := d.Iterator(nil, []byte("\x00"), []byte("b"))
	e, err := it.Next()
	if err != nil || e == nil || e.Term() != "\x00" {
		t.Fatalf("range [0,b): %v %v", e, err)
	}
	if e, _ := it.Next(); e != nil {
		t.Fatalf("range [0,b) returned a second term %q", e.Term())
	}
}

// F7: re-persisting a loaded segment.
func TestC11Regress(t *testing.T) {
	ctx := &Ctx{}
	defer ctx.Close()
	for _, b := range []Batch{nil, {{Fields: []Field{{Name: "a", Len: 1, Store: true, Value: "v", Terms: []Term{{T: "x", Freq: 1}}}}}}} {
		seg := mustBuild(t, b, 1)
		first, err := Persist(seg)
		if err != nil {
			t.Fatal(err)
		}
		if err := checkFile("built", first, seg, 1); err != nil {
			t.Fatal(err)
		}
		m, err := LoadMem(first)
		if err != nil {
			t.Fatal(err)
		}
		f, err := ctx.LoadFile(first)
		if err != nil {
			t.Fatal(err)
		}
		for _, s := range []segment.Segment{m, f} {
			again, err := Persist(s)
			if err != nil {
				t.Fatal(err)
			}
			if err := checkFile("F7 re-persisted", again, s, 1); err != nil {
				t.Fatal(err)
			}
			if string(again) != string(first) {
				t.Fatalf("F7: re-persisted file differs")
			}
		}
	}
}

// F8: a used postings list reused on the dictionary of an unknown field.
func TestC13Regress(t *testing.T) {
	seg := mustBuild(t, Batch{{Fields: []Field{{Name: "a", Len: 1, Terms: []Term{{T: "x", Freq: 1}}}}}}, 1025)
	err := safely("F8", func() error {
		d, err := seg.Dictionary("a")
		if err != nil {
			return err
		}
		pl, err := d.PostingsList([]byte("x"), nil, nil)
		if err != nil {
			return err
		}
		u, err := seg.Dictionary(UnknownField)
		if err != nil {
			return err
		}
		pl2, err := u.PostingsList([]byte("x"), nil, pl)
		if err != nil {
			return err
		}
		ps, err := WalkPostings(pl2, true, true, true)
		if err != nil {
			return err
		}
		if len(ps) != 0 || pl2.Count() != 0 {
			t.Fatalf("F8: unknown field yields %v", ps)
		}
		return nil
	})
	if err != nil {
		t.Fatalf("F8: %v", err)
	}
}

// F9: merged SumTotalTermFrequency.
func TestC16Regress(t *testing.T) {
	b1 := Batch{{Fields: []Field{{Name: "_id", Len: 4, Terms: []Term{{T: "x", Freq: 2}, {T: "y", Freq: 2}}}}}, {Fields: []Field{{Name: "_id", Len: 3, Terms: []Term{{T: "x", Freq: 3}}}}}}
	b2 := Batch{{Fields: []Field{{Name: "_id", Len: 3, Terms: []Term{{T: "x", Freq: 1}, {T: "z", Freq: 2}}}}}}
	drops := []*roaring.Bitmap{roaring.BitmapOf(1), nil}
	bs, _, err := MergeBytes([]segment.Segment{mustBuild(t, b1, 1025), mustBuild(t, b2, 1025)}, drops, 1025)
	if err != nil {
		t.Fatal(err)
	}
	m, err := LoadMem(bs)
	if err != nil {
		t.Fatal(err)
	}
	exp, _ := MergeExpect([]*XSeg{Expect(b1, normFns[0].F), Expect(b2, normFns[0].F)}, drops)
	obs, err := Observe(m, ProbeFields, Facets{Stats: true})
	if err != nil {
		t.Fatal(err)
	}
	if d := Diff(exp, obs, Facets{Stats: true}); d != "" {
		t.Fatalf("F9: %s", d)
	}
	if s := obs.Stats["_id"]; s.SumTTF != 7 || s.DocCount != 2 {
		t.Fatalf("F9: stats %+v", s)
	}
}

// F10: DocsMatchingTerms with unknown / empty field names.
func TestC18Regress(t *testing.T) {
	seg := mustBuild(t, Batch{{Fields: []Field{{Name: "a", Len: 1, Terms: []Term{{T: "x", Freq: 1}}}}}}, 1025)
	for _, list := range [][]segment.Term{
		{ftTerm{UnknownField, "x"}},
		{ftTerm{"", "x"}, ftTerm{"a", "x"}},
		{ftTerm{"a", "x"}, ftTerm{UnknownField, "x"}, ftTerm{"a", "y"}},
	} {
		var bm *roaring.Bitmap
		err := safely("F10", func() error { var e error; bm, e = seg.DocsMatchingTerms(list); return e })
		if err != nil {
			t.Fatalf("F10 %v: %v", list, err)
		}
		want := uint64(0)
		for _, x := range list {
			if x.Field() == "a" && string(x.Term()) == "x" {
				want = 1
			}
		}
		if bm.GetCardinality() != want {
			t.Fatalf("F10 %v: got %v", list, bm)
		}
	}
}

// F11: storage fails during the first (lazy) FST load; the next dictionary
// call must return instead of blocking on the segment's mutex.
func TestC19Regress(t *testing.T) {
	ctx := &Ctx{}
	defer ctx.Close()
	b := Batch{{Fields: []Field{{Name: "b", Len: 1, Terms: []Term{{T: "b", Freq: 1}}}, {Name: "title", Len: 1, Terms: []Term{{T: "", Freq: 1}}}}}}
	bs, err := Persist(mustBuild(t, b, 1024))
	if err != nil {
		t.Fatal(err)
	}
	f, err := ctx.writeTemp(bs)
	if err != nil {
		t.Fatal(err)
	}
	d, fr, err := faultData(f)
	if err != nil {
		t.Fatal(err)
	}
	seg, err := ice.Load(d)
	if err != nil {
		t.Fatal(err)
	}
	fr.arm(0)
	env := &ropEnv{seg: seg, dvr: map[string]segment.DocumentValueReader{}}
	for i, o := range []rop{{kind: 1, field: "b", term: "b"}, {kind: 1, field: "title", term: ""}, {kind: 0, field: "b"}} {
		res, err, blocked, infra := runGuarded(o, env)
		if infra != "" {
			t.Fatalf("INFRA: %s", infra)
		}
		if blocked {
			t.Fatalf("F11: call #%d %s blocked on a mutex inside ice:\n%s", i, o, res)
		}
		if err == nil && res != "" {
			t.Fatalf("F11: call #%d %s returned %q although every read fails", i, o, res)
		}
	}
}

// F6(b): a stored-field visit issued from inside the visitor of another block.
func TestC09Regress(t *testing.T) {
	p := BlocksParams{N: 300, TermPer: 1, ValPos: []int{0, 5, 43}, ValLen: []int{7, 12, 20}, TwoVals: true, LastShort: true}
	sc := &Scenario{Schema: map[string]int{}, Norm: normFns[0]}
	b := p.Batch(sc)
	exp := Expect(b, normFns[0].F)
	seg := mustBuild(t, b, 1025)
	plan := &nestPlan{kind: 0, doc: 0, at: 0, inner: []*nestPlan{{kind: 0, doc: 299}, {kind: 0, doc: 133, at: 0, inner: []*nestPlan{{kind: 0, doc: 0}}}}}
	ns := &nestStats{}
	if err := safely("F6b", func() error { return runNest(seg, exp, plan, 0, ns) }); err != nil {
		t.Fatalf("F6(b): %v", err)
	}
}

// F14: Next() called again on an iterator whose first location chunk could
// not be read must return an error, not panic.
func TestC19RegressRetry(t *testing.T) {
	ctx := &Ctx{}
	defer ctx.Close()
	b := Batch{{}, {Fields: []Field{{Name: "title", Len: 5, Terms: []Term{{T: "\x00", Freq: 3, Locs: []Loc{{Pos: 0, Start: 1, End: 128}, {Field: "title", Pos: 2, Start: 128}}}, {T: "b", Freq: 2}}}}},
		{Fields: []Field{{Name: "title", Len: 1, Terms: []Term{{T: "\x00", Freq: 1, Locs: []Loc{{Pos: 0, Start: 1, End: 300}}}}}}}}
	bs, err := Persist(mustBuild(t, b, 7))
	if err != nil {
		t.Fatal(err)
	}
	f, err := ctx.writeTemp(bs)
	if err != nil {
		t.Fatal(err)
	}
	o := rop{kind: 1, field: "title", term: "\x00"}
	// count the reads of a fault-free walk, then fail from every read index on
	d, fr, err := faultData(f)
	if err != nil {
		t.Fatal(err)
	}
	seg, err := ice.Load(d)
	if err != nil {
		t.Fatal(err)
	}
	fr.arm(-1)
	if _, err := o.run(&ropEnv{seg: seg, dvr: map[string]segment.DocumentValueReader{}}); err != nil {
		t.Fatal(err)
	}
	total := fr.calls.Load()
	for k := int64(0); k <= total; k++ {
		d, fr, _ := faultData(f)
		seg, err := ice.Load(d)
		if err != nil {
			t.Fatal(err)
		}
		fr.arm(k)
		_, err = o.run(&ropEnv{seg: seg, dvr: map[string]segment.DocumentValueReader{}})
		if isPanic(err) {
			t.Fatalf("F14: storage failing from read #%d on: %v", k, err)
		}
	}
}

// F15: a chunk load that fails part way through its header must not leave the
// doc-value reader serving the previous chunk from a half-overwritten header.
func TestC19RegressDocValueHeader(t *testing.T) {
	ctx := &Ctx{}
	defer ctx.Close()
	sc := &Scenario{Schema: map[string]int{"a": dvAlways}, Norm: normFns[0]}
	p := WideParams{N: 2100, SparsePer: 40, FreqMod: 1} // chunks of 1024, 1024 and 52 documents: the header slice is reused in place
	b := p.Batch(sc)
	bs, err := Persist(mustBuild(t, b, 1025))
	if err != nil {
		t.Fatal(err)
	}
	f, err := ctx.writeTemp(bs)
	if err != nil {
		t.Fatal(err)
	}
	ops := []rop{{kind: 3, doc: 1026, fields: []string{"a"}}, {kind: 3, doc: 1030, fields: []string{"a"}}, {kind: 3, doc: 3, fields: []string{"a"}}, {kind: 3, doc: 1026, fields: []string{"a"}}, {kind: 3, doc: 1027, fields: []string{"a"}}}
	load := func() (*ropEnv, *faultReader) {
		d, fr, err := faultData(f)
		if err != nil {
			t.Fatal(err)
		}
		seg, err := ice.Load(d)
		if err != nil {
			t.Fatal(err)
		}
		return &ropEnv{seg: seg, dvr: map[string]segment.DocumentValueReader{}}, fr
	}
	env, fr := load()
	fr.arm(-1)
	good := make([]string, len(ops))
	start := make([]int64, len(ops))
	for i, o := range ops {
		start[i] = fr.calls.Load()
		if good[i], err = o.run(env); err != nil {
			t.Fatal(err)
		}
	}
	// fail after 0..30 reads of the third call (the load of chunk 0)
	for j := int64(0); j <= 30; j++ {
		env, fr := load()
		fr.arm(start[2] + j)
		for i, o := range ops {
			res, err := o.run(env)
			if isPanic(err) {
				t.Fatalf("F15: failing from read %d of call #2: call #%d %s: %v", j, i, o, err)
			}
			if err == nil && res != "" && res != good[i] {
				t.Fatalf("F15: failing from read %d of call #2: call #%d %s returned %q, fault-free %q", j, i, o, res, good[i])
			}
		}
	}
}

// F16: an Advance target beyond the 32-bit document number space must end the
// iteration (no posting is at or after it) on every path; the flag-less clean
// path and the exclusion path truncated the target to its low 32 bits.
func TestC05RegressAdvanceBeyond32(t *testing.T) {
	b := Batch{}
	for i := 0; i < 8; i++ {
		b = append(b, Doc{Fields: []Field{{Name: "a", Len: 1, Terms: []Term{{T: "t", Freq: 1}}}}})
	}
	seg := mustBuild(t, b, 1025)
	d, err := seg.Dictionary("a")
	if err != nil {
		t.Fatal(err)
	}
	for _, except := range []*roaring.Bitmap{nil, roaring.BitmapOf(1)} {
		for _, flags := range []bool{false, true} {
			for _, target := range []uint64{1 << 32, 1<<32 + 5, 3<<32 + 2, 1 << 63} {
				pl, err := d.PostingsList([]byte("t"), except, nil)
				if err != nil {
					t.Fatal(err)
				}
				it, err := pl.Iterator(flags, flags, flags, nil)
				if err != nil {
					t.Fatal(err)
				}
				if p, err := it.Next(); err != nil || p == nil || p.Number() != 0 {
					t.Fatalf("first Next: %v %v", p, err)
				}
				p, err := it.Advance(target)
				if err != nil {
					t.Fatal(err)
				}
				if p != nil {
					t.Fatalf("F16: except=%v flags=%v: Advance(%d) returned posting %d, expected the end", except, flags, target, p.Number())
				}
				if p, err = it.Next(); err != nil || p != nil {
					t.Fatalf("F16: except=%v flags=%v: Next after the end returned %v, %v", except, flags, p, err)
				}
			}
		}
	}
}
