package harness

import (
	"bytes"
	"encoding/binary"
	"fmt"
	"hash/crc32"
	"testing"

	"github.com/RoaringBitmap/roaring"
	segment "github.com/blugelabs/bluge_segment_api"
	"pgregory.net/rapid"
)

// C11 — written files end in a footer whose CRC-32 covers every preceding byte.
const c11Rule = "case = segment reachable by New / Merge / Load (trees of merges, all chunk modes, built / memory-loaded / file-loaded) persisted with Segment.WriteTo, plus Merger.WriteTo output; " +
	"oracle = independent footer parser (layout from the README): last 4 bytes = CRC-32/IEEE of all preceding bytes; footer numDocs/version/chunk mode = what the loaded segment reports; " +
	"returned byte count = bytes written; Load then WriteTo reproduces the file byte for byte (memory- and file-backed); non-trivial = non-empty segment; distinct = hash of the canonical case text"

const footerSize = 8 + 8 + 8 + 8 + 4 + 4 + 4

type footerInfo struct {
	numDocs, storedIdx, fieldsIdx, dvOffset uint64
	chunkMode, version, crc                 uint32
}

// parseFooterIndependent is written from the README layout, not from ice code.
func parseFooterIndependent(b []byte) (footerInfo, error) {
	var f footerInfo
	if len(b) < footerSize {
		return f, fmt.Errorf("file of %d bytes is shorter than the footer", len(b))
	}
	p := b[len(b)-footerSize:]
	f.numDocs = binary.BigEndian.Uint64(p[0:])
	f.storedIdx = binary.BigEndian.Uint64(p[8:])
	f.fieldsIdx = binary.BigEndian.Uint64(p[16:])
	f.dvOffset = binary.BigEndian.Uint64(p[24:])
	f.chunkMode = binary.BigEndian.Uint32(p[32:])
	f.version = binary.BigEndian.Uint32(p[36:])
	f.crc = binary.BigEndian.Uint32(p[40:])
	return f, nil
}

type footerReporter interface {
	NumDocs() uint64
	ChunkMode() uint32
	Version() uint32
	Count() uint64
}

func checkFile(what string, b []byte, rep segment.Segment, wantMode uint32) error {
	f, err := parseFooterIndependent(b)
	if err != nil {
		return fmt.Errorf("%s: %v", what, err)
	}
	if want := crc32.ChecksumIEEE(b[:len(b)-4]); f.crc != want {
		return fmt.Errorf("%s: footer CRC %08x, CRC-32/IEEE of the preceding %d bytes is %08x", what, f.crc, len(b)-4, want)
	}
	r := rep.(footerReporter)
	if f.numDocs != r.Count() || f.numDocs != r.NumDocs() {
		return fmt.Errorf("%s: footer numDocs %d, segment reports Count %d NumDocs %d", what, f.numDocs, r.Count(), r.NumDocs())
	}
	if f.version != r.Version() || f.version != 2 {
		return fmt.Errorf("%s: footer version %d, segment reports %d", what, f.version, r.Version())
	}
	if f.chunkMode != r.ChunkMode() || f.chunkMode != wantMode {
		return fmt.Errorf("%s: footer chunk mode %d, segment reports %d, requested %d", what, f.chunkMode, r.ChunkMode(), wantMode)
	}
	// the fields index (one 8-byte address per field) immediately precedes the footer,
	// and the stored index (one 8-byte offset per document) lies before it
	nFields := uint64(len(rep.Fields()))
	if want := uint64(len(b)) - footerSize - 8*nFields; f.fieldsIdx != want {
		return fmt.Errorf("%s: footer fields index offset %d, but %d fields put the fields index at %d", what, f.fieldsIdx, nFields, want)
	}
	if f.storedIdx+8*f.numDocs > f.fieldsIdx {
		return fmt.Errorf("%s: footer stored index offset %d (+%d documents) overlaps the fields index at %d", what, f.storedIdx, f.numDocs, f.fieldsIdx)
	}
	if f.numDocs > 0 && f.dvOffset != ^uint64(0) && (f.dvOffset < f.storedIdx || f.dvOffset > f.fieldsIdx) {
		return fmt.Errorf("%s: footer doc value offset %d outside [stored index %d, fields index %d]", what, f.dvOffset, f.storedIdx, f.fieldsIdx)
	}
	return nil
}

func c11Prop(st *CaseStats, fam int) func(t *rapid.T) {
	return func(t *rapid.T) {
		ctx := &Ctx{}
		defer ctx.Close()
		sc := GenScenario(t)
		cfg := CaseCfg{Family: fam, MaxDocs: 6, MaxIn: 3, HoldAny: true}
		depth := rapid.SampledFrom([]int{0, 0, 1, 1, 2}).Draw(t, "depth")
		if fam == FamBlocks || fam == FamWide || fam == FamBig {
			cfg.MaxIn = 2
			depth = rapid.SampledFrom([]int{0, 1}).Draw(t, "depth")
		}
		if fam == FamGiant {
			depth = 0
		}
		c, err := GenCase(t, ctx, sc, cfg, depth, "c")
		if err != nil {
			t.Fatalf("%s: %v", sc, err)
		}
		desc := fmt.Sprintf("%s %s", sc, c.Desc)
		labels := c.LabelList()
		if c.Merged {
			// the merger's own output
			ms, err := LoadMem(c.Bytes)
			if err != nil {
				t.Fatalf("%s: %v", desc, err)
			}
			if err := checkFile("Merger output", c.Bytes, ms, c.Mode); err != nil {
				t.Fatalf("%s:\n  %v", desc, err)
			}
			labels = append(labels, "merger-output")
		}
		if rapid.IntRange(0, 2).Draw(t, "failedPersistFirst") == 0 {
			// an earlier, failed attempt to persist the same segment (possibly its very first persist)
			// must not influence later files
			fw := &failAfter{k: rapid.IntRange(0, 300).Draw(t, "failAt")}
			n, err := c.Seg.WriteTo(fw, nil)
			if err == nil {
				// the writer had room for the whole file: it must be a correct one
				if n != int64(len(fw.buf)) {
					t.Fatalf("%s:\n  WriteTo returned %d, wrote %d", desc, n, len(fw.buf))
				}
				if err := checkFile("Segment.WriteTo (small file)", fw.buf, c.Seg, c.Mode); err != nil {
					t.Fatalf("%s:\n  %v", desc, err)
				}
			} else {
				labels = append(labels, "after-failed-persist")
			}
		}
		first, err := Persist(c.Seg) // also checks the returned byte count
		if err != nil {
			t.Fatalf("%s: %v", desc, err)
		}
		if err := checkFile("Segment.WriteTo", first, c.Seg, c.Mode); err != nil {
			t.Fatalf("%s:\n  %v", desc, err)
		}
		if c.Bytes != nil && !bytes.Equal(c.Bytes, first) {
			t.Fatalf("%s:\n  persisting the loaded segment again does not reproduce the file it was loaded from (%d vs %d bytes, first difference at %d)", desc, len(c.Bytes), len(first), firstDiff(c.Bytes, first))
		}
		// the destination is the caller's own bufio.Writer: same bytes, and the count is the bytes of THIS file
		for _, src := range []segment.Segment{c.Seg} {
			for _, size := range []int{16, 4096, 1 << 16} {
				other, n, err := PersistBufio(src, size)
				if err != nil {
					t.Fatalf("%s: WriteTo(bufio.Writer of %d): %v", desc, size, err)
				}
				if n != int64(len(other)) || !bytes.Equal(other, first) {
					t.Fatalf("%s:\n  WriteTo into the caller's bufio.Writer(%d) returned %d; after the owner's Flush %d bytes arrived, the file has %d bytes", desc, size, n, len(other), len(first))
				}
			}
		}
		if len(first) < 1<<20 && rapid.IntRange(0, 3).Draw(t, "keptWriterPersist") == 0 {
			if err := keptWriterPersists(c.Seg, first); err != nil {
				t.Fatalf("%s:\n  %v", desc, err)
			}
			labels = append(labels, "kept-bufio-destination(persist)")
		}
		mem, err := LoadMem(first)
		if err != nil {
			t.Fatalf("%s: %v", desc, err)
		}
		fil, err := ctx.LoadFile(first)
		if err != nil {
			t.Fatalf("%s: %v", desc, err)
		}
		for _, l := range []struct {
			name string
			s    segment.Segment
		}{{"memory-loaded", mem}, {"file-loaded", fil}} {
			again, err := Persist(l.s)
			if err != nil {
				t.Fatalf("%s: re-persisting %s: %v", desc, l.name, err)
			}
			if !bytes.Equal(first, again) {
				t.Fatalf("%s:\n  re-persisting the %s segment differs from the file (%d vs %d bytes, first difference at byte %d: %x vs %x)", desc, l.name,
					len(first), len(again), firstDiff(first, again), tail4(first), tail4(again))
			}
			if err := checkFile("re-persisted "+l.name, again, l.s, c.Mode); err != nil {
				t.Fatalf("%s:\n  %v", desc, err)
			}
			if crc := l.s.(interface{ CRC() uint32 }).CRC(); crc != binary.BigEndian.Uint32(first[len(first)-4:]) {
				t.Fatalf("%s:\n  %s segment reports CRC %08x, file footer has %08x", desc, l.name, crc, first[len(first)-4:])
			}
		}
		// public Merger.WriteTo
		if rapid.IntRange(0, 2).Draw(t, "publicMerge") == 0 {
			pmIn, pmDr := []segment.Segment{c.Seg, mem}, []*roaring.Bitmap{GenDrops(t, c.Exp.N, "pm"), nil}
			if rapid.Bool().Draw(t, "singleInputMerge") {
				pmIn, pmDr = pmIn[:1], []*roaring.Bitmap{rapid.SampledFrom([]*roaring.Bitmap{nil, roaring.New(), pmDr[0]}).Draw(t, "singleDrops")}
			}
			pb, _, err := PublicMerge(pmIn, pmDr, rapid.SampledFrom([]int{0, 1, 44, 64, 1024, 4095, 4096, 1 << 20}).Draw(t, "buf"))
			if err != nil {
				t.Fatalf("%s: public merge: %v", desc, err)
			}
			ps, err := LoadMem(pb)
			if err != nil {
				t.Fatalf("%s: %v", desc, err)
			}
			if err := checkFile("public Merger.WriteTo", pb, ps, 1025); err != nil {
				t.Fatalf("%s:\n  %v", desc, err)
			}
			labels = append(labels, "public-merger")
			if rapid.Bool().Draw(t, "keptWriter") {
				pmSegs, pmDrops := []segment.Segment{c.Seg, mem}, []*roaring.Bitmap{nil, nil}
				g, _, err := PublicMerge(pmSegs, pmDrops, 0)
				if err != nil {
					t.Fatalf("%s: public merge: %v", desc, err)
				}
				if err := keptWriterMerges(pmSegs, pmDrops, g, 5000+c.Exp.N%7); err != nil {
					t.Fatalf("%s:\n  %v", desc, err)
				}
				labels = append(labels, "kept-bufio-destination")
			}
		}
		if c.Merged {
			labels = append(labels, "merged")
		} else {
			labels = append(labels, "built")
		}
		labels = append(labels, "loaded-repersist")
		st.Record(desc, c.Exp.N > 0, labels...)
	}
}

func firstDiff(a, b []byte) int {
	n := len(a)
	if len(b) < n {
		n = len(b)
	}
	for i := 0; i < n; i++ {
		if a[i] != b[i] {
			return i
		}
	}
	return n
}

func tail4(b []byte) []byte {
	if len(b) < 4 {
		return b
	}
	return b[len(b)-4:]
}

func TestC11Small(t *testing.T) {
	st := NewStats("C11Small", c11Rule)
	defer st.Flush()
	rapid.Check(t, c11Prop(st, FamSmall))
}

func TestC11Blocks(t *testing.T) {
	st := NewStats("C11Blocks", c11Rule)
	defer st.Flush()
	rapid.Check(t, c11Prop(st, FamBlocks))
}

func TestC11Mid(t *testing.T) {
	st := NewStats("C11Mid", c11Rule)
	defer st.Flush()
	rapid.Check(t, c11Prop(st, FamMid))
}

func TestC11Wide(t *testing.T) {
	st := NewStats("C11Wide", c11Rule)
	defer st.Flush()
	rapid.Check(t, c11Prop(st, FamWide))
}

func TestC11Big(t *testing.T) {
	st := NewStats("C11Big", c11Rule)
	defer st.Flush()
	rapid.Check(t, c11Prop(st, FamBig))
}

func TestC11Aligned(t *testing.T) {
	st := NewStats("C11Aligned", c11Rule)
	defer st.Flush()
	rapid.Check(t, c11Prop(st, FamAligned))
}

func TestC11Giant(t *testing.T) {
	st := NewStats("C11Giant", c11Rule)
	defer st.Flush()
	rapid.Check(t, c11Prop(st, FamGiant))
}
