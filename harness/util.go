package harness

// Small helpers shared by the generators and several checks.

import (
	"bufio"
	"bytes"
	"errors"
	"fmt"
	"io"
	"os"
	"runtime"

	"github.com/RoaringBitmap/roaring"
	segment "github.com/blugelabs/bluge_segment_api"
	ice "github.com/blugelabs/ice/v2"
)

var errInjected = errors.New("injected write failure")

// the error VALUES failing writers hand back: the harness's own, and the
// sentinels real destinations report (a broken stream, a closed file, ...)
var writeErrs = []error{errInjected, io.EOF, io.ErrUnexpectedEOF, io.ErrShortWrite, io.ErrClosedPipe, os.ErrClosed, io.ErrNoProgress}

func writeErrFor(k int) error { return writeErrs[k%len(writeErrs)] }

// failAfter accepts exactly k bytes, then fails forever.
type failAfter struct {
	k, n int
	buf  []byte
}

func (w *failAfter) Write(p []byte) (int, error) {
	room := w.k - w.n
	if room <= 0 {
		return 0, writeErrFor(w.k)
	}
	if len(p) <= room {
		w.buf = append(w.buf, p...)
		w.n += len(p)
		return len(p), nil
	}
	w.buf = append(w.buf, p[:room]...)
	w.n += room
	return room, writeErrFor(w.k)
}

// failOnce fails exactly one Write call - the one during which byte k would be
// written (a partial write up to k is accepted) - and works again afterwards.
type failOnce struct {
	k, n   int
	failed bool
	full   bool // report the failure together with the FULL byte count (n == len(p), err != nil: allowed by io.Writer, e.g. a sync after the write failing)
}

func (w *failOnce) Write(p []byte) (int, error) {
	if !w.failed && w.n+len(p) > w.k {
		w.failed = true
		if w.full {
			w.n += len(p)
			return len(p), writeErrFor(w.k)
		}
		room := w.k - w.n
		w.n += room
		return room, writeErrFor(w.k)
	}
	w.n += len(p)
	return len(p), nil
}

// closeAt closes ch when the k-th byte arrives (k == 0: before anything).
type closeAt struct {
	k      int
	ch     chan struct{}
	closed bool
	buf    bytes.Buffer
}

func (w *closeAt) Write(p []byte) (int, error) {
	w.buf.Write(p)
	if !w.closed && w.buf.Len() >= w.k {
		close(w.ch)
		w.closed = true
	}
	return len(p), nil
}

type ftTerm struct{ f, t string }

func (x ftTerm) Field() string { return x.f }

// Term hands the empty term over as a nil slice (a nil []byte IS the empty
// byte string) for field names of even length and as an empty non-nil slice
// for the others; every other term as a fresh slice.
func (x ftTerm) Term() []byte {
	if x.t == "" && len(x.f)%2 == 0 {
		return nil
	}
	return []byte(x.t)
}

// cancelledMerge merges the segment with one document dropped (document-by-
// document stored path) and closes the close channel when the first bytes
// reach the writer. ErrClosed and a completed merge are both fine.
func cancelledMerge(seg segment.Segment) error {
	drop := roaring.New()
	if seg.Count() > 0 {
		drop.Add(0)
	}
	w := &closeAt{k: 1, ch: make(chan struct{})}
	_, err := ice.Merge([]segment.Segment{seg}, []*roaring.Bitmap{drop}, 16).WriteTo(w, w.ch)
	if err != nil && !errors.Is(err, segment.ErrClosed) {
		return err
	}
	return nil
}

// keptWriterMerges writes the same merge three times into ONE bufio.Writer the
// caller keeps (flushing, never resetting it) with merges into another
// destination in between; every file must arrive completely where it was sent.
// Pools are emptied first (two GCs), so that whatever the library recycles
// between merges starts from scratch.
func keptWriterMerges(segs []segment.Segment, drops []*roaring.Bitmap, good []byte, mergeBuf int) error {
	var sink, other bytes.Buffer
	own := bufio.NewWriterSize(&sink, 1<<16)
	runtime.GC()
	runtime.GC()
	for round := 0; round < 3; round++ {
		var n int64
		err := safely("Merger.WriteTo(kept bufio destination)", func() error {
			var e error
			n, e = ice.Merge(segs, drops, mergeBuf).WriteTo(own, nil)
			return e
		})
		if err == nil {
			err = own.Flush()
		}
		if err != nil {
			return fmt.Errorf("merge #%d into the caller's kept bufio.Writer: %v", round, err)
		}
		if n != int64(len(good)) || sink.Len() != (round+1)*len(good) || !bytes.Equal(sink.Bytes()[round*len(good):], good) {
			return fmt.Errorf("merge #%d into the caller's kept bufio.Writer returned %d; its sink now holds %d bytes, expected %d (%d files of %d bytes); another destination used in between holds %d bytes",
				round, n, sink.Len(), (round+1)*len(good), round+1, len(good), other.Len())
		}
		before := other.Len()
		if _, err := ice.Merge(segs, drops, mergeBuf).WriteTo(&other, nil); err != nil {
			return err
		}
		if other.Len()-before != len(good) || !bytes.Equal(other.Bytes()[before:], good) {
			return fmt.Errorf("a merge into a plain buffer after merges into a kept bufio.Writer wrote %d bytes, expected %d", other.Len()-before, len(good))
		}
	}
	return nil
}

// keptWriterPersists is keptWriterMerges for Segment.WriteTo: three persists
// into ONE bufio.Writer the caller keeps, with persists into another
// destination in between.
func keptWriterPersists(seg segment.Segment, good []byte) error {
	var sink, other bytes.Buffer
	own := bufio.NewWriterSize(&sink, 1<<16)
	runtime.GC()
	runtime.GC()
	for round := 0; round < 3; round++ {
		var n int64
		err := safely("Segment.WriteTo(kept bufio destination)", func() error {
			var e error
			n, e = seg.WriteTo(own, nil)
			return e
		})
		if err == nil {
			err = own.Flush()
		}
		if err != nil {
			return fmt.Errorf("persist #%d into the caller's kept bufio.Writer: %v", round, err)
		}
		if n != int64(len(good)) || sink.Len() != (round+1)*len(good) || !bytes.Equal(sink.Bytes()[round*len(good):], good) {
			return fmt.Errorf("persist #%d into the caller's kept bufio.Writer returned %d; its sink now holds %d bytes, expected %d (%d files of %d bytes); another destination used in between holds %d bytes",
				round, n, sink.Len(), (round+1)*len(good), round+1, len(good), other.Len())
		}
		before := other.Len()
		n2, err := seg.WriteTo(&other, nil)
		if err != nil {
			return err
		}
		if other.Len()-before != len(good) || n2 != int64(len(good)) || !bytes.Equal(other.Bytes()[before:], good) {
			return fmt.Errorf("a persist into a plain buffer that already holds %d bytes, after persists into a kept bufio.Writer, returned %d and appended %d bytes, expected %d", before, n2, other.Len()-before, len(good))
		}
	}
	return nil
}

// flushyFailOnce is failOnce with a Flush method that reports no error (an
// unbuffered sink whose Flush / Sync has nothing left to do): a failed Write
// stays failed whatever a later Flush says.
type flushyFailOnce struct{ failOnce }

func (w *flushyFailOnce) Flush() error { return nil }

// flushyFailAfter: the same for a writer that fails forever.
type flushyFailAfter struct{ failAfter }

func (w *flushyFailAfter) Flush() error { return nil }
