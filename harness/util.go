package harness

// Small helpers shared by the generators and several checks.

import (
	"bytes"
	"errors"

	"github.com/RoaringBitmap/roaring"
	segment "github.com/blugelabs/bluge_segment_api"
	ice "github.com/blugelabs/ice/v2"
)

var errInjected = errors.New("injected write failure")

// failAfter accepts exactly k bytes, then fails forever.
type failAfter struct {
	k, n int
	buf  []byte
}

func (w *failAfter) Write(p []byte) (int, error) {
	room := w.k - w.n
	if room <= 0 {
		return 0, errInjected
	}
	if len(p) <= room {
		w.buf = append(w.buf, p...)
		w.n += len(p)
		return len(p), nil
	}
	w.buf = append(w.buf, p[:room]...)
	w.n += room
	return room, errInjected
}

// failOnce fails exactly one Write call - the one during which byte k would be
// written (a partial write up to k is accepted) - and works again afterwards.
type failOnce struct {
	k, n   int
	failed bool
}

func (w *failOnce) Write(p []byte) (int, error) {
	if !w.failed && w.n+len(p) > w.k {
		w.failed = true
		room := w.k - w.n
		w.n += room
		return room, errInjected
	}
	w.n += len(p)
	return len(p), nil
}

// closeAt closes ch when the k-th byte arrives (k == 0: before anything).
type closeAt struct {
	k      int
	ch     chan struct{}
	closed bool
	buf    bytes.Buffer
}

func (w *closeAt) Write(p []byte) (int, error) {
	w.buf.Write(p)
	if !w.closed && w.buf.Len() >= w.k {
		close(w.ch)
		w.closed = true
	}
	return len(p), nil
}

type ftTerm struct{ f, t string }

func (x ftTerm) Field() string { return x.f }
func (x ftTerm) Term() []byte  { return []byte(x.t) }

// cancelledMerge merges the segment with one document dropped (document-by-
// document stored path) and closes the close channel when the first bytes
// reach the writer. ErrClosed and a completed merge are both fine.
func cancelledMerge(seg segment.Segment) error {
	drop := roaring.New()
	if seg.Count() > 0 {
		drop.Add(0)
	}
	w := &closeAt{k: 1, ch: make(chan struct{})}
	_, err := ice.Merge([]segment.Segment{seg}, []*roaring.Bitmap{drop}, 16).WriteTo(w, w.ch)
	if err != nil && !errors.Is(err, segment.ErrClosed) {
		return err
	}
	return nil
}
