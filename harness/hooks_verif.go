//go:build verif

package harness

import (
	"io"

	"github.com/RoaringBitmap/roaring"
	segment "github.com/blugelabs/bluge_segment_api"
	ice "github.com/blugelabs/ice/v2"
)

// HooksOn says whether the verif-tagged exports of ice are compiled in.
const HooksOn = true

func hookNew(docs []segment.Document, norm func(string, int) float32, chunkMode uint32) (segment.Segment, uint64, error) {
	return ice.VerifNew(docs, norm, chunkMode)
}

func hookMerge(segs []segment.Segment, drops []*roaring.Bitmap, w io.Writer, chunkMode uint32, closeCh chan struct{}) ([][]uint64, uint64, error) {
	return ice.VerifMerge(segs, drops, w, chunkMode, closeCh)
}

func hookPoolHoldsUsed() (bool, bool) { return ice.VerifPoolHoldsUsed(), true }
