package harness

import (
	"fmt"
	"testing"

	"github.com/RoaringBitmap/roaring"
	segment "github.com/blugelabs/bluge_segment_api"
	ice "github.com/blugelabs/ice/v2"
	"pgregory.net/rapid"
)

// C13 with transient storage failures in the history: a lookup that FAILED
// with a reused object is followed by further lookups through the same
// objects. The failed call itself is not judged here (that is C19); every
// call made while the storage is healthy must return exactly what fresh
// objects return.
const c13FaultRule = "case = one file-backed segment (small / one-posting-list families; built or merged, any chunk mode) read through ONE retained postings list, ONE retained postings iterator (each handed back as the preallocated argument; " +
	"after a failed call the caller keeps the object it passed in), dictionaries kept across lookups and ONE retained doc-value reader, over <=30 steps; a drawn subset of steps runs with a transient storage fault (reads k..k+m-1 of that step fail, k<=8, m<=3); " +
	"oracle = every step WITHOUT a fault must succeed and agree with the reference model whatever failed before; faulted steps are not judged; " +
	"non-trivial = a healthy lookup through an object whose previous use failed; distinct = hash of case text + history"

func c13FaultProp(st *CaseStats, fam int) func(t *rapid.T) {
	return func(t *rapid.T) {
		ctx := &Ctx{}
		defer ctx.Close()
		sc := GenScenario(t)
		c, err := GenCase(t, ctx, sc, CaseCfg{Family: fam, MaxDocs: 8, MaxIn: 2}, rapid.SampledFrom([]int{0, 1, 1}).Draw(t, "depth"), "c")
		if err != nil {
			t.Fatalf("%s: %v", sc, err)
		}
		if c.Bytes == nil {
			if c.Bytes, err = Persist(c.Seg); err != nil {
				t.Fatalf("%s %s: %v", sc, c.Desc, err)
			}
		}
		f, err := ctx.writeTemp(c.Bytes)
		if err != nil {
			t.Fatalf("INFRA: %v", err)
		}
		data, fr, err := faultData(f)
		if err != nil {
			t.Fatalf("INFRA: %v", err)
		}
		var seg segment.Segment
		if err := safely("Load", func() error { var e error; seg, e = ice.Load(data); return e }); err != nil {
			t.Fatalf("%s %s: %v", sc, c.Desc, err)
		}
		desc := fmt.Sprintf("%s fileBacked:%s", sc, c.Desc)
		fr.arm(-1)
		// dictionaries obtained while healthy and kept
		dicts := map[string]segment.Dictionary{}
		for _, fn := range c.Exp.Fields {
			d, err := seg.Dictionary(fn)
			if err != nil {
				t.Fatalf("%s: Dictionary(%q): %v", desc, fn, err)
			}
			dicts[fn] = d
		}
		var dvFields []string
		for _, fn := range c.Exp.Fields {
			if per := c.Exp.DV[fn]; per != nil && !dvEmpty(per) {
				dvFields = append(dvFields, fn)
			}
		}
		dvr, err := seg.DocumentValueReader(dvFields)
		if err != nil {
			t.Fatalf("%s: DocumentValueReader: %v", desc, err)
		}
		var prePL segment.PostingsList
		var preIt segment.PostingsIterator
		plFailedLast, itFailedLast, dvFailedLast := false, false, false
		hist := ""
		nt := false
		var labels []string
		var lastField, lastTerm string
		haveLast := false
		nSteps := rapid.IntRange(3, 30).Draw(t, "nSteps")
		for s := 0; s < nSteps; s++ {
			fault := rapid.IntRange(0, 2).Draw(t, "fault") == 0
			var fk, fm int
			if fault {
				fk = rapid.IntRange(0, 8).Draw(t, "faultAt")
				fm = rapid.IntRange(1, 3).Draw(t, "faultLen")
			}
			if len(c.Exp.Fields) == 0 {
				break
			}
			if rapid.IntRange(0, 9).Draw(t, "op") < 7 || len(dvFields) == 0 || c.Exp.N == 0 {
				field := rapid.SampledFrom(c.Exp.Fields).Draw(t, "field")
				for _, fn := range c.Exp.Fields { // prefer a field with terms
					if len(c.Exp.Post[field]) == 0 && len(c.Exp.Post[fn]) > 0 {
						field = fn
					}
				}
				term := "absent"
				if ks := sortedKeys(c.Exp.Post[field]); len(ks) > 0 && rapid.IntRange(0, 7).Draw(t, "knownTerm") > 0 {
					term = rapid.SampledFrom(ks).Draw(t, "term")
				}
				if haveLast && rapid.IntRange(0, 2).Draw(t, "sameAgain") == 0 {
					// the same lookup as the step before (a retry)
					field, term = lastField, lastTerm
				}
				lastField, lastTerm, haveLast = field, term, true
				var except *roaring.Bitmap
				if rapid.IntRange(0, 3).Draw(t, "withExcept") == 0 && c.Exp.N > 0 {
					except = roaring.BitmapOf(uint32(rapid.IntRange(0, c.Exp.N-1).Draw(t, "exceptDoc")))
				}
				fl := rapid.IntRange(0, 7).Draw(t, "flags")
				hist += fmt.Sprintf(" lookup(%q/%q except=%s flags=%03b fault=%v@%d+%d)", field, term, bmString(except), fl, fault, fk, fm)
				var want []XPosting
				for _, p := range c.Exp.Post[field][term] {
					if except == nil || !except.Contains(uint32(p.Doc)) {
						want = append(want, p)
					}
				}
				var got []XPosting
				var count uint64
				usedFailedPL, usedFailedIt := plFailedLast && prePL != nil, itFailedLast && preIt != nil
				if fault {
					fr.armWindow(int64(fk), int64(fm))
				}
				err := safely("lookup", func() error {
					d := dicts[field]
					res, err := d.PostingsList([]byte(term), except, prePL)
					if err != nil {
						plFailedLast = true
						return err
					}
					prePL, plFailedLast = res, false
					count = res.Count()
					rit, err := res.Iterator(fl&1 != 0, fl&2 != 0, fl&4 != 0, preIt)
					if err != nil {
						itFailedLast = true
						return err
					}
					preIt, itFailedLast = rit, false
					for {
						p, err := rit.Next()
						if err != nil {
							itFailedLast = true
							return err
						}
						if p == nil {
							return nil
						}
						got = append(got, XPosting{Doc: p.Number(), Freq: p.Frequency(), Norm: float32(p.Norm()), Locs: copyLocs(p.Locations())})
						if len(got) > len(want)+5 {
							return fmt.Errorf("iterator yields more postings than exist")
						}
					}
				})
				failures := fr.failures.Load()
				fr.arm(-1)
				if fault && failures > 0 {
					labels = append(labels, "faulted-lookup")
					if isPanic(err) {
						// not this property's business (C19), but never acceptable
						t.Fatalf("%s\n  history:%s\n  %v", desc, hist, err)
					}
					continue
				}
				if err != nil {
					t.Fatalf("%s\n  history:%s\n  healthy lookup failed: %v", desc, hist, err)
				}
				if count != uint64(len(want)) {
					t.Fatalf("%s\n  history:%s\n  Count() = %d, fresh objects give %d", desc, hist, count, len(want))
				}
				w2 := make([]XPosting, len(want))
				for i, p := range want {
					w2[i] = p
					if fl&1 == 0 && fl&2 == 0 && fl&4 == 0 {
						w2[i].Freq, w2[i].Norm = 0, 0
					}
					if fl&4 == 0 {
						w2[i].Locs = nil
					}
				}
				g2 := make([]XPosting, len(got))
				for i, p := range got {
					g2[i] = p
					if fl&1 == 0 && fl&2 == 0 && fl&4 == 0 {
						g2[i].Freq, g2[i].Norm = 0, 0
					}
				}
				if d := postingsDiff(w2, g2); d != "" {
					t.Fatalf("%s\n  history:%s\n  healthy lookup through reused objects (list failed before: %v, iterator failed before: %v): %s", desc, hist, usedFailedPL, usedFailedIt, d)
				}
				if usedFailedPL || usedFailedIt {
					nt = true
					labels = append(labels, "healthy-lookup-after-failed-use")
				}
			} else {
				doc := rapid.IntRange(0, c.Exp.N-1).Draw(t, "dvDoc")
				hist += fmt.Sprintf(" dv(%d fault=%v@%d+%d)", doc, fault, fk, fm)
				if fault {
					fr.armWindow(int64(fk), int64(fm))
				}
				err := checkDVVisit(dvr, c.Exp, dvFields, uint64(doc))
				failures := fr.failures.Load()
				fr.arm(-1)
				if fault && failures > 0 {
					labels = append(labels, "faulted-docvalue-visit")
					dvFailedLast = true
					continue
				}
				if err != nil {
					t.Fatalf("%s\n  history:%s\n  healthy doc-value visit through the retained reader (failed before: %v): %v", desc, hist, dvFailedLast, err)
				}
				if dvFailedLast {
					nt = true
					labels = append(labels, "healthy-docvalue-visit-after-failed-visit")
				}
				dvFailedLast = false
			}
		}
		st.Record(desc+" history"+hist, nt, dedup(labels)...)
	}
}

func TestC13Fault(t *testing.T) {
	st := NewStats("C13Fault", c13FaultRule)
	defer st.Flush()
	rapid.Check(t, c13FaultProp(st, FamSmall))
}

func TestC13FaultMid(t *testing.T) {
	st := NewStats("C13FaultMid", c13FaultRule)
	defer st.Flush()
	rapid.Check(t, c13FaultProp(st, FamMid))
}
