package harness

// Document model. The values rapid generates and shrinks ARE the input handed
// to ice: the adapter types below implement the segment API interfaces on top
// of these plain structs.

import (
	"fmt"
	"math"
	"sort"
	"strings"

	"github.com/RoaringBitmap/roaring"
	segment "github.com/blugelabs/bluge_segment_api"
)

type Loc struct {
	Field           string
	Pos, Start, End int
}

type Term struct {
	T    string
	Freq int
	Locs []Loc
}

type Field struct {
	Name  string
	Len   int
	Terms []Term
	Value string
	Store bool
	DV    bool
	// NoIndex makes Index() report false (a stored-only value, as Bluge's
	// stored-only fields do); only drawn for instances without terms
	NoIndex bool
}

type Doc struct {
	Fields []Field
}

type Batch []Doc

// ---- adapters implementing the segment API ----

// termScratch is the buffer a streaming analyzer would reuse: every Term()
// call of a batch overwrites it (term bytes are only valid until the next
// term is produced; the builder copies what it keeps).
type termScratch struct{ buf []byte }

type docA struct {
	d  *Doc
	sc *termScratch
}

func (d docA) Analyze() {}
func (d docA) EachField(vf segment.VisitField) {
	for i := range d.d.Fields {
		vf(fieldA{&d.d.Fields[i], d.sc})
	}
}

type fieldA struct {
	f  *Field
	sc *termScratch
}

func (f fieldA) Name() string { return f.f.Name }
func (f fieldA) Length() int  { return f.f.Len }
func (f fieldA) EachTerm(vt segment.VisitTerm) {
	for i := range f.f.Terms {
		vt(termA{&f.f.Terms[i], f.sc})
	}
}
func (f fieldA) Value() []byte        { return []byte(f.f.Value) }
func (f fieldA) Index() bool          { return !f.f.NoIndex }
func (f fieldA) Store() bool          { return f.f.Store }
func (f fieldA) IndexDocValues() bool { return f.f.DV }

type termA struct {
	t  *Term
	sc *termScratch
}

func (t termA) Term() []byte {
	if t.sc == nil {
		return []byte(t.t.T)
	}
	t.sc.buf = append(t.sc.buf[:0], t.t.T...)
	return t.sc.buf
}
func (t termA) Frequency() int { return t.t.Freq }
func (t termA) EachLocation(vl segment.VisitLocation) {
	for i := range t.t.Locs {
		vl(locA{&t.t.Locs[i]})
	}
}

type locA struct{ l *Loc }

func (l locA) Field() string { return l.l.Field }
func (l locA) Start() int    { return l.l.Start }
func (l locA) End() int      { return l.l.End }
func (l locA) Pos() int      { return l.l.Pos }
func (l locA) Size() int     { return 0 }

// Docs converts the batch to the API type.
func (b Batch) Docs() []segment.Document {
	rv := make([]segment.Document, len(b))
	sc := &termScratch{}
	for i := range b {
		rv[i] = docA{&b[i], sc}
	}
	return rv
}

// ---- norm functions (pure, strictly positive) ----

type NormFn struct {
	ID int
	F  func(string, int) float32
}

var normFns = []NormFn{
	{0, func(_ string, l int) float32 { return float32(1.0 / math.Sqrt(float64(l)+1)) }},
	{1, func(_ string, l int) float32 { return float32(l) + 0.5 }},
	{2, func(n string, l int) float32 { return float32(len(n)+1)*0.25 + float32(l)*3 }},
	// extreme but positive values: tiny, huge, and a mantissa with its low bits set
	{3, func(n string, l int) float32 {
		switch (l + len(n)) % 3 {
		case 0:
			return 1e-30 * float32(l+1)
		case 1:
			return 3e30
		}
		return math.Float32frombits(0x3f800001 + uint32(l))
	}},
}

// ---- expectation: what a segment over these documents must answer ----

type XPosting struct {
	Doc  uint64
	Freq int
	Norm float32
	Locs []Loc // field names resolved
}

type XStored struct {
	Field string
	Value string
}

type XStats struct {
	Total, DocCount, SumTTF uint64
}

// XSeg is both the oracle's expectation and the shape of an observation.
type XSeg struct {
	N      int
	Fields []string
	// field -> term -> postings ascending by doc
	Post map[string]map[string][]XPosting
	// per document: stored values in field-list order, then input order
	Stored [][]XStored
	// field -> per document sorted distinct terms (only where the document's
	// source segment indexed the field with doc values)
	DV map[string][][]string
	// statistics per field
	Stats map[string]XStats
	// observation only: counts reported by the dictionary iterator and by
	// PostingsList.Count for every enumerated term
	DictCount map[string]map[string]uint64
	PLCount   map[string]map[string]uint64
	// observation only: Contains() answered true for every enumerated term
	ContainsAll bool
}

func fieldListOf(names map[string]struct{}) []string {
	rv := []string{"_id"}
	var rest []string
	for n := range names {
		if n != "_id" {
			rest = append(rest, n)
		}
	}
	sort.Strings(rest)
	return append(rv, rest...)
}

// Expect computes, from the batch alone, everything a built segment must
// answer. It uses no ice code.
func Expect(b Batch, norm func(string, int) float32) *XSeg {
	x := &XSeg{N: len(b), Post: map[string]map[string][]XPosting{}, DV: map[string][][]string{},
		Stats: map[string]XStats{}}
	names := map[string]struct{}{}
	dvField := map[string]bool{}
	for di := range b {
		for fi := range b[di].Fields {
			f := &b[di].Fields[fi]
			names[f.Name] = struct{}{}
			if f.DV {
				dvField[f.Name] = true
			}
		}
	}
	x.Fields = fieldListOf(names)
	fieldPos := map[string]int{}
	for i, n := range x.Fields {
		fieldPos[n] = i
		x.Post[n] = map[string][]XPosting{}
	}
	x.Stored = make([][]XStored, len(b))
	docCount := map[string]uint64{}
	sumLen := map[string]uint64{}
	for di := range b {
		d := &b[di]
		// group by field name
		type acc struct {
			freq int
			locs []Loc
		}
		perField := map[string]map[string]*acc{}
		lens := map[string]int{}
		seen := map[string]bool{}
		var storedTmp []struct {
			pos, ord int
			kv       XStored
		}
		for fi := range d.Fields {
			f := &d.Fields[fi]
			if !seen[f.Name] {
				seen[f.Name] = true
				docCount[f.Name]++
			}
			sumLen[f.Name] += uint64(f.Len)
			lens[f.Name] += f.Len
			if perField[f.Name] == nil {
				perField[f.Name] = map[string]*acc{}
			}
			for ti := range f.Terms {
				tm := &f.Terms[ti]
				a := perField[f.Name][tm.T]
				if a == nil {
					a = &acc{}
					perField[f.Name][tm.T] = a
				}
				a.freq += tm.Freq
				for _, l := range tm.Locs {
					rl := l
					if rl.Field == "" {
						rl.Field = f.Name
					}
					a.locs = append(a.locs, rl)
				}
			}
			if f.Store {
				storedTmp = append(storedTmp, struct {
					pos, ord int
					kv       XStored
				}{fieldPos[f.Name], fi, XStored{f.Name, f.Value}})
			}
		}
		sort.SliceStable(storedTmp, func(i, j int) bool { return storedTmp[i].pos < storedTmp[j].pos })
		for _, s := range storedTmp {
			x.Stored[di] = append(x.Stored[di], s.kv)
		}
		for fname, terms := range perField {
			nv := norm(fname, lens[fname])
			for t, a := range terms {
				x.Post[fname][t] = append(x.Post[fname][t], XPosting{Doc: uint64(di), Freq: a.freq, Norm: nv, Locs: a.locs})
			}
			if dvField[fname] {
				if x.DV[fname] == nil {
					x.DV[fname] = make([][]string, len(b))
				}
				var ts []string
				for t := range terms {
					ts = append(ts, t)
				}
				sort.Strings(ts)
				x.DV[fname][di] = ts
			}
		}
	}
	for _, n := range x.Fields {
		x.Stats[n] = XStats{Total: uint64(len(b)), DocCount: docCount[n], SumTTF: sumLen[n]}
	}
	return x
}

// MergeExpect computes the expectation for merging segments whose
// expectations are given, with the given deletions: the survivors in (segment,
// document) order renumbered from 0, the union field list, statistics per the
// merged definitions (documents with >=1 term in the field; sum of the
// surviving postings' frequencies). It also returns the expected document
// number maps.
const DocDropped = math.MaxInt64

func MergeExpect(ins []*XSeg, drops []*roaring.Bitmap) (*XSeg, [][]uint64) {
	x := &XSeg{Post: map[string]map[string][]XPosting{}, DV: map[string][][]string{}, Stats: map[string]XStats{}}
	names := map[string]struct{}{}
	maps := make([][]uint64, len(ins))
	var next uint64
	for si, in := range ins {
		for _, f := range in.Fields {
			names[f] = struct{}{}
		}
		maps[si] = make([]uint64, in.N)
		for d := 0; d < in.N; d++ {
			if drops[si] != nil && drops[si].Contains(uint32(d)) {
				maps[si][d] = DocDropped
			} else {
				maps[si][d] = next
				next++
			}
		}
	}
	x.N = int(next)
	x.Fields = fieldListOf(names)
	for _, f := range x.Fields {
		x.Post[f] = map[string][]XPosting{}
	}
	x.Stored = make([][]XStored, x.N)
	for si, in := range ins {
		for d := 0; d < in.N; d++ {
			nd := maps[si][d]
			if nd == DocDropped {
				continue
			}
			x.Stored[nd] = in.Stored[d]
		}
		for f, terms := range in.Post {
			for t, pl := range terms {
				for _, p := range pl {
					nd := maps[si][p.Doc]
					if nd == DocDropped {
						continue
					}
					np := p
					np.Doc = nd
					x.Post[f][t] = append(x.Post[f][t], np)
				}
			}
		}
		for f, per := range in.DV {
			for d, ts := range per {
				nd := maps[si][d]
				if nd == DocDropped || len(ts) == 0 {
					continue
				}
				if x.DV[f] == nil {
					x.DV[f] = make([][]string, x.N)
				}
				x.DV[f][nd] = ts
			}
		}
	}
	for _, f := range x.Fields {
		docs := map[uint64]struct{}{}
		var sum uint64
		for t, pl := range x.Post[f] {
			if len(pl) == 0 {
				delete(x.Post[f], t)
				continue
			}
			for _, p := range pl {
				docs[p.Doc] = struct{}{}
				sum += uint64(p.Freq)
			}
		}
		x.Stats[f] = XStats{Total: uint64(x.N), DocCount: uint64(len(docs)), SumTTF: sum}
	}
	return x, maps
}

// ---- canonical text of a batch (samples, hashing) ----

func (b Batch) String() string {
	var sb strings.Builder
	for i, d := range b {
		fmt.Fprintf(&sb, "doc%d{", i)
		for _, f := range d.Fields {
			fmt.Fprintf(&sb, "%s(len=%d", f.Name, f.Len)
			if f.Store {
				fmt.Fprintf(&sb, ",store=%q", f.Value)
			}
			if f.NoIndex {
				sb.WriteString(",noindex")
			}
			if f.DV {
				sb.WriteString(",dv")
			}
			sb.WriteString(")[")
			for _, t := range f.Terms {
				fmt.Fprintf(&sb, "%q*%d", t.T, t.Freq)
				for _, l := range t.Locs {
					fmt.Fprintf(&sb, "@%s:%d:%d:%d", l.Field, l.Pos, l.Start, l.End)
				}
				sb.WriteString(" ")
			}
			sb.WriteString("] ")
		}
		sb.WriteString("} ")
	}
	return sb.String()
}

func mathFloat32bits(f float32) uint32 { return math.Float32bits(f) }
