package harness

import (
	"os"
	"testing"
)

// TestMain removes the per-process scratch directory (temp segment files).
func TestMain(m *testing.M) {
	code := m.Run()
	if tmpDir != "" {
		os.RemoveAll(tmpDir)
	}
	os.Exit(code)
}
