package harness

// Observation of a segment through its public read API only, and comparison
// with an expectation.

import (
	"fmt"
	"math"
	"reflect"
	"runtime/debug"
	"sort"
	"strings"

	segment "github.com/blugelabs/bluge_segment_api"
)

// safely runs f and converts a panic into an error carrying the panic text:
// every read API's contract is "result or error", never a panic.
func safely(what string, f func() error) (err error) {
	// a write into read-only memory (a segment loaded from a read-only mapping) becomes a panic instead of killing the process
	defer debug.SetPanicOnFault(debug.SetPanicOnFault(true))
	defer func() {
		if r := recover(); r != nil {
			err = fmt.Errorf("PANIC in %s: %v\n%s", what, r, trimStack(debug.Stack()))
		}
	}()
	return f()
}

func trimStack(b []byte) string {
	if len(b) > 2500 {
		b = b[:2500]
	}
	return string(b)
}

// absentProbeTerm is in no vocabulary of the harness.
const absentProbeTerm = "\x01-absent-probe-\x01"

type Facets struct {
	Postings bool // dictionaries + postings + locations
	Counts   bool // dictionary entry counts and PostingsList.Count
	Stored   bool
	DV       bool
	Stats    bool
}

var AllFacets = Facets{true, true, true, true, true}
var NoStats = Facets{true, true, true, true, false}

// copyLocs copies the locations a posting handed out and then treats the
// slice as the caller's own: its elements are reversed and the first one is
// set to nil. What the iterator delivers next must not depend on that.
func copyLocs(ls []segment.Location) []Loc {
	if len(ls) == 0 {
		return nil
	}
	rv := make([]Loc, len(ls))
	for i, l := range ls {
		rv[i] = Loc{Field: l.Field(), Pos: l.Pos(), Start: l.Start(), End: l.End()}
	}
	for i, j := 0, len(ls)-1; i < j; i, j = i+1, j-1 {
		ls[i], ls[j] = ls[j], ls[i]
	}
	ls[0] = nil
	return rv
}

// WalkPostings reads a whole postings list with Next.
func WalkPostings(pl segment.PostingsList, freq, norm, locs bool) ([]XPosting, error) {
	it, err := pl.Iterator(freq, norm, locs, nil)
	if err != nil {
		return nil, err
	}
	var rv []XPosting
	for {
		p, err := it.Next()
		if err != nil {
			return nil, err
		}
		if p == nil {
			break
		}
		rv = append(rv, XPosting{Doc: p.Number(), Freq: p.Frequency(), Norm: float32(p.Norm()), Locs: copyLocs(p.Locations())})
		if len(rv) > 1<<22 {
			return nil, fmt.Errorf("iterator does not terminate")
		}
	}
	// nil marks the end and stays nil
	for k := 0; k < 2; k++ {
		p, err := it.Next()
		if err != nil {
			return nil, err
		}
		if p != nil {
			return nil, fmt.Errorf("iterator returned posting %d after nil", p.Number())
		}
	}
	if err := it.Close(); err != nil {
		return nil, err
	}
	return rv, nil
}

// Observe walks the public read API for the given probe fields (plus the
// segment's own field list).
func Observe(seg segment.Segment, probe []string, fc Facets) (obs *XSeg, err error) {
	err = safely("Observe", func() error {
		var e error
		obs, e = observe(seg, probe, fc, nil)
		return e
	})
	return obs, err
}

// ObserveLenient is Observe for the frozen reference reader: a stored-field
// visit that panics with the reference's own known defect (the look-ahead
// beyond a short last record, fixed in the current code) is recorded in
// excluded instead of failing the observation.
func ObserveLenient(seg segment.Segment, probe []string, fc Facets) (obs *XSeg, excluded map[int]bool, err error) {
	excluded = map[int]bool{}
	err = safely("Observe(reference reader)", func() error {
		var e error
		obs, e = observe(seg, probe, fc, excluded)
		return e
	})
	return obs, excluded, err
}

func observe(seg segment.Segment, probe []string, fc Facets, lenientStored map[int]bool) (*XSeg, error) {
	x := &XSeg{N: int(seg.Count()), Post: map[string]map[string][]XPosting{}, DV: map[string][][]string{},
		Stats: map[string]XStats{}, DictCount: map[string]map[string]uint64{}, PLCount: map[string]map[string]uint64{},
		ContainsAll: true}
	x.Fields = append([]string(nil), seg.Fields()...)
	all := map[string]struct{}{}
	for _, f := range x.Fields {
		all[f] = struct{}{}
	}
	for _, f := range probe {
		all[f] = struct{}{}
	}
	var names []string
	for f := range all {
		names = append(names, f)
	}
	sort.Strings(names)

	if fc.Postings {
		for _, f := range names {
			dict, err := seg.Dictionary(f)
			if err != nil {
				return nil, fmt.Errorf("Dictionary(%q): %v", f, err)
			}
			x.Post[f] = map[string][]XPosting{}
			x.DictCount[f] = map[string]uint64{}
			x.PLCount[f] = map[string]uint64{}
			it := dict.Iterator(nil, nil, nil)
			var terms []string
			var prev string
			for i := 0; ; i++ {
				e, err := it.Next()
				if err != nil {
					return nil, fmt.Errorf("DictionaryIterator.Next(%q): %v", f, err)
				}
				if e == nil {
					break
				}
				t := e.Term()
				if i > 0 && !(prev < t) {
					return nil, fmt.Errorf("dictionary of %q not strictly ascending: %q then %q", f, prev, t)
				}
				prev = t
				terms = append(terms, t)
				x.DictCount[f][t] = e.Count()
			}
			for _, t := range terms {
				ok, err := dict.Contains([]byte(t))
				if err != nil {
					return nil, err
				}
				if !ok {
					x.ContainsAll = false
				}
				pl, err := dict.PostingsList([]byte(t), nil, nil)
				if err != nil {
					return nil, fmt.Errorf("PostingsList(%q,%q): %v", f, t, err)
				}
				x.PLCount[f][t] = pl.Count()
				ps, err := WalkPostings(pl, true, true, true)
				if err != nil {
					return nil, fmt.Errorf("postings of %q/%q: %v", f, t, err)
				}
				x.Post[f][t] = ps
			}
			// a term that is not in the dictionary must be unreachable: no postings, count 0
			ok, err := dict.Contains([]byte(absentProbeTerm))
			if err != nil {
				return nil, err
			}
			pl, err := dict.PostingsList([]byte(absentProbeTerm), nil, nil)
			if err != nil {
				return nil, fmt.Errorf("PostingsList(%q, absent term): %v", f, err)
			}
			ps, err := WalkPostings(pl, true, true, true)
			if err != nil {
				return nil, fmt.Errorf("postings of %q/absent term: %v", f, err)
			}
			if ok || pl.Count() != 0 || len(ps) != 0 {
				return nil, fmt.Errorf("absent term probed in field %q: Contains=%v Count=%d postings=%v", f, ok, pl.Count(), ps)
			}
			// callers are expected to close what they opened; closing must not reach into the segment
			if err := it.Close(); err != nil {
				return nil, err
			}
			if err := dict.Close(); err != nil {
				return nil, err
			}
		}
	}
	if fc.Stored {
		x.Stored = make([][]XStored, x.N)
		for d := 0; d < x.N; d++ {
			var vals []XStored
			visit := func() error {
				return seg.VisitStoredFields(uint64(d), func(field string, value []byte) bool {
					vals = append(vals, XStored{field, string(value)})
					return true
				})
			}
			var err error
			if lenientStored != nil {
				err = safely("VisitStoredFields", visit)
				if err != nil && strings.Contains(err.Error(), "slice bounds out of range") {
					lenientStored[d] = true
					continue
				}
			} else {
				err = visit()
			}
			if err != nil {
				return nil, fmt.Errorf("VisitStoredFields(%d): %v", d, err)
			}
			x.Stored[d] = vals
		}
	}
	if fc.DV {
		r, err := seg.DocumentValueReader(names)
		if err != nil {
			return nil, fmt.Errorf("DocumentValueReader: %v", err)
		}
		for d := 0; d < x.N; d++ {
			err := r.VisitDocumentValues(uint64(d), func(field string, term []byte) {
				if x.DV[field] == nil {
					x.DV[field] = make([][]string, x.N)
				}
				x.DV[field][d] = append(x.DV[field][d], string(term))
			})
			if err != nil {
				return nil, fmt.Errorf("VisitDocumentValues(%d): %v", d, err)
			}
		}
	}
	if fc.Stats {
		for _, f := range names {
			cs, err := seg.CollectionStats(f)
			if err != nil {
				return nil, fmt.Errorf("CollectionStats(%q): %v", f, err)
			}
			x.Stats[f] = XStats{cs.TotalDocumentCount(), cs.DocumentCount(), cs.SumTotalTermFrequency()}
		}
	}
	return x, nil
}

func postingEq(a, b XPosting) bool {
	if a.Doc != b.Doc || a.Freq != b.Freq || math.Float32bits(a.Norm) != math.Float32bits(b.Norm) || len(a.Locs) != len(b.Locs) {
		return false
	}
	for i := range a.Locs {
		if a.Locs[i] != b.Locs[i] {
			return false
		}
	}
	return true
}

func postingsDiff(exp, got []XPosting) string {
	if len(exp) != len(got) {
		return fmt.Sprintf("expected %d postings %v, got %d %v", len(exp), exp, len(got), got)
	}
	for i := range exp {
		if !postingEq(exp[i], got[i]) {
			return fmt.Sprintf("posting #%d: expected %+v, got %+v", i, exp[i], got[i])
		}
	}
	return ""
}

func dvEmpty(per [][]string) bool {
	for _, d := range per {
		if len(d) > 0 {
			return false
		}
	}
	return true
}

// Diff returns "" when the observation answers exactly what the expectation
// demands on the selected facets, otherwise a description of the first
// difference. Both directions are checked (nothing missing, nothing extra).
func Diff(exp, obs *XSeg, fc Facets) string {
	if exp.N != obs.N {
		return fmt.Sprintf("Count: expected %d, got %d", exp.N, obs.N)
	}
	if !reflect.DeepEqual(exp.Fields, obs.Fields) {
		return fmt.Sprintf("Fields: expected %q, got %q", exp.Fields, obs.Fields)
	}
	if fc.Postings {
		for f, oterms := range obs.Post {
			eterms := exp.Post[f]
			for t := range oterms {
				if len(eterms[t]) == 0 {
					return fmt.Sprintf("field %q: term %q enumerated but not expected (postings %v)", f, t, oterms[t])
				}
			}
			for t, eps := range eterms {
				if len(eps) == 0 {
					continue
				}
				ops, ok := oterms[t]
				if !ok {
					return fmt.Sprintf("field %q: expected term %q missing from dictionary", f, t)
				}
				if d := postingsDiff(eps, ops); d != "" {
					return fmt.Sprintf("field %q term %q: %s", f, t, d)
				}
			}
		}
		for f, eterms := range exp.Post {
			if _, ok := obs.Post[f]; !ok && len(eterms) > 0 {
				return fmt.Sprintf("field %q not observed", f)
			}
		}
		if !obs.ContainsAll {
			return "Contains() returned false for an enumerated term"
		}
	}
	if fc.Counts {
		for f, oterms := range obs.Post {
			for t, ops := range oterms {
				want := uint64(len(exp.Post[f][t]))
				if fc.Postings {
					want = uint64(len(ops))
				}
				if obs.DictCount != nil {
					if c := obs.DictCount[f][t]; c != want {
						return fmt.Sprintf("field %q term %q: dictionary entry count %d, expected %d", f, t, c, want)
					}
				}
				if obs.PLCount != nil {
					if c := obs.PLCount[f][t]; c != want {
						return fmt.Sprintf("field %q term %q: PostingsList.Count %d, expected %d", f, t, c, want)
					}
				}
			}
		}
	}
	if fc.Stored {
		for d := 0; d < exp.N; d++ {
			e, o := exp.Stored[d], obs.Stored[d]
			if len(e) != len(o) {
				return fmt.Sprintf("stored fields of doc %d: expected %q, got %q", d, e, o)
			}
			for i := range e {
				if e[i] != o[i] {
					return fmt.Sprintf("stored fields of doc %d: expected %q, got %q", d, e, o)
				}
			}
		}
	}
	if fc.DV {
		for f, per := range obs.DV {
			eper := exp.DV[f]
			for d := range per {
				var e []string
				if eper != nil {
					e = eper[d]
				}
				if len(e) == 0 && len(per[d]) == 0 {
					continue
				}
				if !reflect.DeepEqual(e, per[d]) {
					return fmt.Sprintf("doc values field %q doc %d: expected %q, got %q", f, d, e, per[d])
				}
			}
		}
		for f, eper := range exp.DV {
			if dvEmpty(eper) {
				continue
			}
			oper := obs.DV[f]
			for d := range eper {
				var o []string
				if oper != nil {
					o = oper[d]
				}
				if len(eper[d]) == 0 && len(o) == 0 {
					continue
				}
				if !reflect.DeepEqual(eper[d], o) {
					return fmt.Sprintf("doc values field %q doc %d: expected %q, got %q", f, d, eper[d], o)
				}
			}
		}
	}
	if fc.Stats {
		for f, o := range obs.Stats {
			e := exp.Stats[f] // zero for unknown fields
			if _, known := exp.Stats[f]; !known {
				e = XStats{}
			}
			if e != o {
				return fmt.Sprintf("CollectionStats(%q): expected %+v, got %+v", f, e, o)
			}
		}
		for f := range exp.Stats {
			if _, ok := obs.Stats[f]; !ok {
				return fmt.Sprintf("CollectionStats(%q) not observed", f)
			}
		}
	}
	return ""
}

// DiffObs compares two observations (e.g. original vs loaded) on the facets.
func DiffObs(a, b *XSeg, fc Facets) string {
	if d := Diff(a, b, fc); d != "" {
		return d
	}
	if fc.Counts && a.DictCount != nil && b.DictCount != nil {
		if !reflect.DeepEqual(a.DictCount, b.DictCount) {
			return fmt.Sprintf("dictionary counts differ: %v vs %v", a.DictCount, b.DictCount)
		}
		if !reflect.DeepEqual(a.PLCount, b.PLCount) {
			return fmt.Sprintf("postings list counts differ: %v vs %v", a.PLCount, b.PLCount)
		}
	}
	return ""
}
