package harness

import (
	"fmt"
	"testing"

	"github.com/RoaringBitmap/roaring"
	segment "github.com/blugelabs/bluge_segment_api"
	"pgregory.net/rapid"
)

// C18 — DocsMatchingTerms returns exactly the union of the listed terms' documents.
const c18Rule = "case = built / loaded / merged segment x list of 0..12 (field, term) pairs drawn from {present term, absent term, unknown field, empty field name, repeated pair, " +
	"deleted-away term, 1-hit term} in drawn order (field switches inside the list); oracle = union over the model; no error, no panic; non-trivial = >=2 pairs from >=2 different fields " +
	"with >=1 match; distinct = hash of case text + list"

func TestC18(t *testing.T) {
	st := NewStats("C18", c18Rule)
	defer st.Flush()
	rapid.Check(t, func(t *rapid.T) {
		ctx := &Ctx{}
		defer ctx.Close()
		sc := GenScenario(t)
		c, err := GenCase(t, ctx, sc, CaseCfg{Family: FamSmall, MaxDocs: 10, MaxIn: 3, HoldAny: true},
			rapid.SampledFrom([]int{0, 0, 1, 1, 2}).Draw(t, "depth"), "c")
		if err != nil {
			t.Fatalf("%s: %v", sc, err)
		}
		var present []ftTerm
		for _, f := range c.Exp.Fields {
			for _, tm := range sortedKeys(c.Exp.Post[f]) {
				present = append(present, ftTerm{f, tm})
			}
		}
		n := rapid.IntRange(0, 12).Draw(t, "nTerms")
		var list []segment.Term
		var pairs []ftTerm
		want := roaring.New()
		fieldsSeen := map[string]bool{}
		var labels []string
		for i := 0; i < n; i++ {
			var p ftTerm
			switch k := rapid.IntRange(0, 9).Draw(t, "pairKind"); {
			case k <= 4 && len(present) > 0:
				p = present[rapid.IntRange(0, len(present)-1).Draw(t, "present")]
			case k == 5:
				p = ftTerm{rapid.SampledFrom(FieldVocab).Draw(t, "f"), "absent-term"}
			case k == 6:
				p = ftTerm{UnknownField, rapid.SampledFrom(TermVocab).Draw(t, "t")}
				labels = append(labels, "unknown-field-inside")
			case k == 7:
				p = ftTerm{"", rapid.SampledFrom(TermVocab).Draw(t, "t")}
				labels = append(labels, "empty-field-name")
			case k == 8 && len(pairs) > 0:
				p = pairs[rapid.IntRange(0, len(pairs)-1).Draw(t, "repeat")]
				labels = append(labels, "repeated-pair")
			default:
				p = ftTerm{rapid.SampledFrom(FieldVocab).Draw(t, "f"), rapid.SampledFrom(TermVocab).Draw(t, "t")}
			}
			pairs = append(pairs, p)
			list = append(list, p)
			fieldsSeen[p.f] = true
			pl := c.Exp.Post[p.f][p.t]
			for _, x := range pl {
				want.Add(uint32(x.Doc))
			}
			if c.Merged && len(pl) == 1 && pl[0].Freq == 1 && len(pl[0].Locs) == 0 {
				labels = append(labels, "1-hit-term")
			}
		}
		desc := fmt.Sprintf("%s %s terms=%q", sc, c.Desc, pairs)
		// long lists (bulk deletes by id pass thousands of pairs): pad with repeats of the drawn pairs and
		// with absent terms, before / after / around the drawn pairs
		if rapid.IntRange(0, 4).Draw(t, "longList") == 0 {
			total := rapid.SampledFrom([]int{64, 255, 256, 257, 300, 1000, 5000}).Draw(t, "listLen")
			fill := rapid.IntRange(0, 2).Draw(t, "fillKind")
			where := rapid.IntRange(0, 2).Draw(t, "fillWhere")
			var pad []segment.Term
			for i := 0; len(list)+len(pad) < total; i++ {
				switch {
				case fill == 0 && len(pairs) > 0, fill == 2 && len(pairs) > 0 && i%2 == 0:
					pad = append(pad, pairs[i%len(pairs)])
				default:
					pad = append(pad, ftTerm{FieldVocab[i%len(FieldVocab)], fmt.Sprintf("absent-%d", i)})
				}
			}
			switch where {
			case 0:
				list = append(list, pad...)
			case 1:
				list = append(pad, list...)
			default:
				list = append(append(append([]segment.Term{}, pad[:len(pad)/2]...), list...), pad[len(pad)/2:]...)
			}
			desc += fmt.Sprintf(" padded to %d entries (fill kind %d, position %d)", len(list), fill, where)
			labels = append(labels, "long-list(>=64)")
			if len(list) >= 256 {
				labels = append(labels, "long-list(>=256)")
			}
		}
		var got *roaring.Bitmap
		err = safely("DocsMatchingTerms", func() error {
			var e error
			got, e = c.Seg.DocsMatchingTerms(list)
			return e
		})
		if err != nil {
			t.Fatalf("%s: %v", desc, err)
		}
		if got == nil || !got.Equals(want) {
			t.Fatalf("%s:\n  expected %s, got %v", desc, want, got)
		}
		// the result belongs to the caller: after it has been modified, the same question - and the empty
		// question - must still get the right answer
		got.Add(4000000)
		got.Add(7)
		got.RunOptimize()
		for _, l := range [][]segment.Term{list, nil, {}} {
			var again *roaring.Bitmap
			err = safely("DocsMatchingTerms", func() error {
				var e error
				again, e = c.Seg.DocsMatchingTerms(l)
				return e
			})
			if err != nil {
				t.Fatalf("%s: %v", desc, err)
			}
			w := want
			if len(l) == 0 {
				w = roaring.New()
			}
			if again == nil || !again.Equals(w) {
				t.Fatalf("%s:\n  asked again (%d entries) after the caller modified an earlier result: expected %s, got %v", desc, len(l), w, again)
			}
			again.Add(4000001)
		}
		nt := n >= 2 && len(fieldsSeen) >= 2 && !want.IsEmpty()
		st.Record(desc, nt, dedup(append(labels, c.LabelList()...))...)
	})
}
