package harness

import (
	"fmt"
	"hash/adler32"
	"hash/crc32"
	"hash/fnv"
	"sync"
	"testing"

	"github.com/RoaringBitmap/roaring"
	segment "github.com/blugelabs/bluge_segment_api"
	"pgregory.net/rapid"
)

// C18 — DocsMatchingTerms returns exactly the union of the listed terms' documents.
const c18Rule = "case = built / loaded / merged segment x list of 0..12 (field, term) pairs drawn from {present term, absent term, unknown field, empty field name, repeated pair, " +
	"deleted-away term, 1-hit term} in drawn order (field switches inside the list); oracle = union over the model; no error, no panic; non-trivial = >=2 pairs from >=2 different fields " +
	"with >=1 match; distinct = hash of case text + list"

func TestC18(t *testing.T) {
	st := NewStats("C18", c18Rule)
	defer st.Flush()
	rapid.Check(t, func(t *rapid.T) {
		ctx := &Ctx{}
		defer ctx.Close()
		sc := GenScenario(t)
		c, err := GenCase(t, ctx, sc, CaseCfg{Family: FamSmall, MaxDocs: 10, MaxIn: 3, HoldAny: true},
			rapid.SampledFrom([]int{0, 0, 1, 1, 2}).Draw(t, "depth"), "c")
		if err != nil {
			t.Fatalf("%s: %v", sc, err)
		}
		var present []ftTerm
		for _, f := range c.Exp.Fields {
			for _, tm := range sortedKeys(c.Exp.Post[f]) {
				present = append(present, ftTerm{f, tm})
			}
		}
		n := rapid.IntRange(0, 12).Draw(t, "nTerms")
		var list []segment.Term
		var pairs []ftTerm
		want := roaring.New()
		fieldsSeen := map[string]bool{}
		var labels []string
		for i := 0; i < n; i++ {
			var p ftTerm
			switch k := rapid.IntRange(0, 9).Draw(t, "pairKind"); {
			case k <= 4 && len(present) > 0:
				p = present[rapid.IntRange(0, len(present)-1).Draw(t, "present")]
			case k == 5:
				p = ftTerm{rapid.SampledFrom(FieldVocab).Draw(t, "f"), "absent-term"}
			case k == 6:
				p = ftTerm{UnknownField, rapid.SampledFrom(TermVocab).Draw(t, "t")}
				labels = append(labels, "unknown-field-inside")
			case k == 7:
				p = ftTerm{"", rapid.SampledFrom(TermVocab).Draw(t, "t")}
				labels = append(labels, "empty-field-name")
			case k == 8 && len(pairs) > 0:
				p = pairs[rapid.IntRange(0, len(pairs)-1).Draw(t, "repeat")]
				labels = append(labels, "repeated-pair")
			default:
				p = ftTerm{rapid.SampledFrom(FieldVocab).Draw(t, "f"), rapid.SampledFrom(TermVocab).Draw(t, "t")}
			}
			pairs = append(pairs, p)
			list = append(list, p)
			fieldsSeen[p.f] = true
			pl := c.Exp.Post[p.f][p.t]
			for _, x := range pl {
				want.Add(uint32(x.Doc))
			}
			if c.Merged && len(pl) == 1 && pl[0].Freq == 1 && len(pl[0].Locs) == 0 {
				labels = append(labels, "1-hit-term")
			}
		}
		desc := fmt.Sprintf("%s %s terms=%q", sc, c.Desc, pairs)
		// long lists (bulk deletes by id pass thousands of pairs): pad with repeats of the drawn pairs and
		// with absent terms, before / after / around the drawn pairs
		if rapid.IntRange(0, 4).Draw(t, "longList") == 0 {
			total := rapid.SampledFrom([]int{64, 255, 256, 257, 300, 1000, 5000}).Draw(t, "listLen")
			fill := rapid.IntRange(0, 2).Draw(t, "fillKind")
			where := rapid.IntRange(0, 2).Draw(t, "fillWhere")
			var pad []segment.Term
			for i := 0; len(list)+len(pad) < total; i++ {
				switch {
				case fill == 0 && len(pairs) > 0, fill == 2 && len(pairs) > 0 && i%2 == 0:
					pad = append(pad, pairs[i%len(pairs)])
				default:
					pad = append(pad, ftTerm{FieldVocab[i%len(FieldVocab)], fmt.Sprintf("absent-%d", i)})
				}
			}
			switch where {
			case 0:
				list = append(list, pad...)
			case 1:
				list = append(pad, list...)
			default:
				list = append(append(append([]segment.Term{}, pad[:len(pad)/2]...), list...), pad[len(pad)/2:]...)
			}
			desc += fmt.Sprintf(" padded to %d entries (fill kind %d, position %d)", len(list), fill, where)
			labels = append(labels, "long-list(>=64)")
			if len(list) >= 256 {
				labels = append(labels, "long-list(>=256)")
			}
		}
		var got *roaring.Bitmap
		err = safely("DocsMatchingTerms", func() error {
			var e error
			got, e = c.Seg.DocsMatchingTerms(list)
			return e
		})
		if err != nil {
			t.Fatalf("%s: %v", desc, err)
		}
		if got == nil || !got.Equals(want) {
			t.Fatalf("%s:\n  expected %s, got %v", desc, want, got)
		}
		// the result belongs to the caller: after it has been modified, the same question - and the empty
		// question - must still get the right answer
		got.Add(4000000)
		got.Add(7)
		got.RunOptimize()
		for _, l := range [][]segment.Term{list, nil, {}} {
			var again *roaring.Bitmap
			err = safely("DocsMatchingTerms", func() error {
				var e error
				again, e = c.Seg.DocsMatchingTerms(l)
				return e
			})
			if err != nil {
				t.Fatalf("%s: %v", desc, err)
			}
			w := want
			if len(l) == 0 {
				w = roaring.New()
			}
			if again == nil || !again.Equals(w) {
				t.Fatalf("%s:\n  asked again (%d entries) after the caller modified an earlier result: expected %s, got %v", desc, len(l), w, again)
			}
			again.Add(4000001)
		}
		nt := n >= 2 && len(fieldsSeen) >= 2 && !want.IsEmpty()
		st.Record(desc, nt, dedup(append(labels, c.LabelList()...))...)
	})
}

// ---- field names that collide under common 32-bit checksums ----

const c18NamesRule = "case = one segment whose field names come in pairs that collide under a common 32-bit checksum (FNV-1a, FNV-1, CRC-32 IEEE, CRC-32 Castagnoli, Adler-32, djb2, Java's 31-polynomial; those for which a birthday search over 400000 generated names finds a collision at start-up), " +
	"each field holding its own term in its own document; lists mix the colliding fields in drawn order with repeats and absent terms; oracle = exact union; non-trivial = a list names both fields of a colliding pair; distinct = hash of the list"

type nameHash struct {
	name string
	f    func(string) uint32
}

var nameHashes = []nameHash{
	{"fnv1a32", func(s string) uint32 { h := fnv.New32a(); h.Write([]byte(s)); return h.Sum32() }},
	{"fnv1-32", func(s string) uint32 { h := fnv.New32(); h.Write([]byte(s)); return h.Sum32() }},
	{"crc32-ieee", func(s string) uint32 { return crc32.ChecksumIEEE([]byte(s)) }},
	{"crc32-castagnoli", func(s string) uint32 { return crc32.Checksum([]byte(s), crc32.MakeTable(crc32.Castagnoli)) }},
	{"adler32", func(s string) uint32 { return adler32.Checksum([]byte(s)) }},
	{"djb2", func(s string) uint32 {
		h := uint32(5381)
		for i := 0; i < len(s); i++ {
			h = h*33 + uint32(s[i])
		}
		return h
	}},
	{"java31", func(s string) uint32 {
		h := uint32(0)
		for i := 0; i < len(s); i++ {
			h = h*31 + uint32(s[i])
		}
		return h
	}},
	{"fnv1a64-folded", func(s string) uint32 { h := fnv.New64a(); h.Write([]byte(s)); x := h.Sum64(); return uint32(x) ^ uint32(x>>32) }},
}

var collidingOnce sync.Once
var collidingPairs [][2]string

func collidingFieldNames() [][2]string {
	collidingOnce.Do(func() {
		for _, nh := range nameHashes {
			seen := map[uint32]string{}
			for i := 0; i < 400000; i++ {
				n := fmt.Sprintf("f%d", i)
				h := nh.f(n)
				if o, ok := seen[h]; ok {
					collidingPairs = append(collidingPairs, [2]string{o, n})
					break
				}
				seen[h] = n
			}
		}
	})
	return collidingPairs
}

func TestC18Names(t *testing.T) {
	st := NewStats("C18Names", c18NamesRule)
	defer st.Flush()
	pairs := collidingFieldNames()
	if len(pairs) < 3 {
		t.Fatalf("INFRA: only %d colliding name pairs found", len(pairs))
	}
	var b Batch
	type ft struct {
		f, t string
		doc  int
	}
	var all []ft
	for pi, p := range pairs {
		for k := 0; k < 2; k++ {
			tm := fmt.Sprintf("t%d-%d", pi, k)
			b = append(b, Doc{Fields: []Field{{Name: p[k], Len: 1, Terms: []Term{{T: tm, Freq: 1}}}}})
			all = append(all, ft{p[k], tm, len(b) - 1})
		}
	}
	ctx := &Ctx{}
	defer ctx.Close()
	built, err := Build(b, normFns[0], 1025)
	if err != nil {
		t.Fatal(err)
	}
	bs, err := Persist(built)
	if err != nil {
		t.Fatal(err)
	}
	loaded, err := ctx.LoadFile(bs)
	if err != nil {
		t.Fatal(err)
	}
	mb, _, err := MergeBytes([]segment.Segment{built}, []*roaring.Bitmap{nil}, 1025)
	if err != nil {
		t.Fatal(err)
	}
	merged, err := LoadMem(mb)
	if err != nil {
		t.Fatal(err)
	}
	segs := []segment.Segment{built, loaded, merged}
	rapid.Check(t, func(t *rapid.T) {
		seg := segs[rapid.IntRange(0, 2).Draw(t, "segment")]
		n := rapid.IntRange(2, 8).Draw(t, "nEntries")
		var list []segment.Term
		want := roaring.New()
		desc := ""
		both := false
		seenPair := map[int]int{}
		for i := 0; i < n; i++ {
			x := all[rapid.IntRange(0, len(all)-1).Draw(t, "entry")]
			if i%2 == 1 && rapid.Bool().Draw(t, "partner") {
				// the checksum partner of the previous entry's field
				for j, y := range all {
					if y.f == list[len(list)-1].Field() {
						x = all[j^1]
					}
				}
			}
			tm := x.t
			if rapid.IntRange(0, 4).Draw(t, "absentTerm") == 0 {
				tm = "absent"
			} else {
				want.Add(uint32(x.doc))
			}
			list = append(list, ftTerm{x.f, tm})
			desc += fmt.Sprintf(" (%s,%s)", x.f, tm)
			for j, y := range all {
				if y.f == x.f {
					seenPair[j/2] |= 1 << (j % 2)
				}
			}
		}
		for _, m := range seenPair {
			if m == 3 {
				both = true
			}
		}
		var got *roaring.Bitmap
		err := safely("DocsMatchingTerms", func() error { var e error; got, e = seg.DocsMatchingTerms(list); return e })
		if err != nil {
			t.Fatalf("list%s: %v", desc, err)
		}
		if got == nil || !got.Equals(want) {
			t.Fatalf("field names colliding under common checksums, list%s:\n  expected %s, got %v", desc, want, got)
		}
		st.Record(desc, both, "colliding-names")
	})
}
