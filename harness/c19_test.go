package harness

import (
	"bytes"
	"fmt"
	"os"
	"regexp"
	"runtime"
	"strings"
	"testing"
	"time"

	"github.com/RoaringBitmap/roaring"
	segment "github.com/blugelabs/bluge_segment_api"
	ice "github.com/blugelabs/ice/v2"
	"pgregory.net/rapid"
)

// C19 — a failed storage read is reported and never wedges the segment.
const c19Rule = "case = file-backed segment (small / block families, built or merged; >1024-document family with one retained doc-value reader crossing chunk boundaries) + a sequence of 3..10 read calls (dictionary enumeration, postings walk, stored visit, doc-value visit with one retained reader, " +
	"DocsMatchingTerms, stats, persist, merge as input); inside each case EVERY index k of the storage read from which all reads fail is enumerated, k = 0..(reads of the fault-free run; beyond 300 reads: first 120, last 20, 40 after the start of every call, and a stride), both as a persistent failure and as a transient window of 1..3 failing reads, each on a freshly loaded segment " +
	"(walks through every 'which caches are warm' state); oracle = every call returns (watchdog + goroutine dump: blocked in Mutex.Lock under an ice frame = violation, anything else = inconclusive), a call that saw a failing " +
	"read yields an error or an empty result, a call before the first failure is correct, a later call that does no storage read of its own is correct or reports an error / empty result (never a different non-empty result), no panic - also when the caller keeps calling Next on an iterator that returned an error; non-trivial = the fault hits after >=1 successful read and >=1 call follows " +
	"the first failing call; distinct = hash of case text + call sequence"

type rop struct {
	reuse  bool // postings: pass the goroutine's previous postings list / iterator as prealloc
	early  bool // postings: stop after the first posting (leaves the iterator half-consumed for a later reuse)
	adv    int  // postings: >0: after a posting numbered n the walk continues with Advance(n+1+adv) instead of Next (skips postings, leaving their frequencies and locations unread)
	kind   int
	field  string
	term   string
	doc    uint64
	nested bool   // stored: the visitor's first callback visits document doc2 completely before going on
	doc2   uint64
	fields []string
	terms  []ftTerm
}

func (o rop) String() string {
	switch o.kind {
	case 0:
		return fmt.Sprintf("dict(%q)", o.field)
	case 1:
		if o.reuse || o.early || o.adv > 0 {
			return fmt.Sprintf("postings(%q,%q,reuse=%v,stopEarly=%v,advanceSkip=%d)", o.field, o.term, o.reuse, o.early, o.adv)
		}
		return fmt.Sprintf("postings(%q,%q)", o.field, o.term)
	case 2:
		if o.nested {
			return fmt.Sprintf("stored(%d, visiting %d from inside the visitor)", o.doc, o.doc2)
		}
		return fmt.Sprintf("stored(%d)", o.doc)
	case 3:
		return fmt.Sprintf("docvalues(%q,%d)", o.fields, o.doc)
	case 4:
		return fmt.Sprintf("docsMatching(%q)", o.terms)
	case 5:
		return fmt.Sprintf("stats(%q)", o.field)
	case 6:
		return "mergeAsInput"
	case 8:
		return "cancelledMerge"
	default:
		return "persist"
	}
}

// oneDocStats is a caller-side CollectionStats value that is not ice's own
// type, with three different components (5 documents, 2 of them carrying the
// field, 11 occurrences).
type oneDocStats struct{}

func (*oneDocStats) TotalDocumentCount() uint64    { return 5 }
func (*oneDocStats) DocumentCount() uint64         { return 2 }
func (*oneDocStats) SumTotalTermFrequency() uint64 { return 11 }
func (*oneDocStats) Merge(segment.CollectionStats) {}

// retriedErr is the error of a postings walk that saw an error and kept
// calling: it carries the postings the iterator returned AFTER the error (for
// the report only: what an iterator delivers after it reported an error is
// not constrained by the property, only that it returns and does not panic).
type retriedErr struct {
	first error
	after []XPosting
}

func (e *retriedErr) Error() string {
	return fmt.Sprintf("%v (postings returned by later calls on the same iterator: %v)", e.first, e.after)
}

type ropEnv struct {
	seg   segment.Segment
	dvr   map[string]segment.DocumentValueReader
	yield bool // call runtime.Gosched() inside visitor callbacks (C09)
	// the usual reuse idiom: the previous list / iterator of this reader
	lastPL segment.PostingsList
	lastIt segment.PostingsIterator
}

func (o rop) run(env *ropEnv) (res string, err error) {
	err = safely(o.String(), func() error {
		var sb strings.Builder
		switch o.kind {
		case 0:
			d, err := env.seg.Dictionary(o.field)
			if err != nil {
				return err
			}
			it := d.Iterator(nil, nil, nil)
			for {
				e, err := it.Next()
				if err != nil {
					return err
				}
				if e == nil {
					break
				}
				fmt.Fprintf(&sb, "%q:%d ", e.Term(), e.Count())
			}
		case 1:
			d, err := env.seg.Dictionary(o.field)
			if err != nil {
				return err
			}
			var prePL segment.PostingsList
			var preIt segment.PostingsIterator
			if o.reuse {
				prePL, preIt = env.lastPL, env.lastIt
			}
			pl, err := d.PostingsList([]byte(o.term), nil, prePL)
			if err != nil {
				if prePL != nil {
					// the caller still holds the list it handed in: using it must return (anything), not panic
					_ = prePL.Count()
					if hit, e := prePL.Iterator(true, true, true, nil); e == nil && hit != nil {
						_, _ = hit.Next()
					}
					if hit, e := prePL.Iterator(false, false, false, nil); e == nil && hit != nil {
						_, _ = hit.Next()
					}
				}
				return err
			}
			it, err := pl.Iterator(true, true, true, preIt)
			if err != nil {
				if preIt != nil {
					// the caller still holds the iterator it handed in: stepping it must return (anything), not panic
					_, _ = preIt.Next()
					_, _ = preIt.Advance(3)
				}
				return err
			}
			env.lastPL, env.lastIt = pl, it
			if c := it.Count(); c != pl.Count() {
				return fmt.Errorf("iterator Count %d != list Count %d", c, pl.Count())
			}
			var ps, after []XPosting
			var firstErr error
			last := int64(-1)
			for n := 0; n < 1<<22; n++ {
				var p segment.Posting
				var err error
				if o.adv > 0 && last >= 0 {
					p, err = it.Advance(uint64(last) + 1 + uint64(o.adv))
				} else {
					p, err = it.Next()
				}
				if err != nil {
					if firstErr == nil {
						firstErr = err
					}
					// a caller may retry: the iterator must keep returning (an error, nil or a
					// posting), never panic, after a failed storage read
					if n > len(ps)+3 {
						break
					}
					continue
				}
				if p == nil {
					break
				}
				x := XPosting{Doc: p.Number(), Freq: p.Frequency(), Norm: float32(p.Norm()), Locs: copyLocs(p.Locations())}
				last = int64(x.Doc)
				if firstErr == nil {
					ps = append(ps, x)
				} else {
					after = append(after, x)
				}
				if o.early && firstErr == nil {
					break
				}
			}
			if firstErr != nil {
				return &retriedErr{firstErr, after}
			}
			if !o.reuse && !o.early && env.lastIt == it && len(ps)%2 == 1 {
				// a reader that is done with its iterator closes it - here twice, as an explicit Close followed
				// by a deferred one does - and forgets it
				_ = it.Close()
				_ = it.Close()
				env.lastIt = nil
			}
			if len(ps) > 0 || pl.Count() > 0 {
				fmt.Fprintf(&sb, "count=%d %v", pl.Count(), ps)
			}
		case 2:
			entered := false
			var innerErr error
			var inner strings.Builder
			err := env.seg.VisitStoredFields(o.doc, func(f string, v []byte) bool {
				val := string(v) // copied at callback entry
				if env.yield {
					runtime.Gosched()
				}
				if o.nested && !entered {
					entered = true
					innerErr = env.seg.VisitStoredFields(o.doc2, func(f2 string, v2 []byte) bool {
						fmt.Fprintf(&inner, "%s=%q ", f2, string(v2))
						return true
					})
				}
				fmt.Fprintf(&sb, "%s=%q ", f, val)
				return true
			})
			if err != nil {
				return err
			}
			if innerErr != nil {
				return innerErr
			}
			if entered {
				fmt.Fprintf(&sb, "| inner: %s", inner.String())
			}
		case 3:
			key := fmt.Sprint(o.fields)
			r := env.dvr[key]
			if r == nil {
				var err error
				r, err = env.seg.DocumentValueReader(o.fields)
				if err != nil {
					return err
				}
				env.dvr[key] = r
			}
			err := r.VisitDocumentValues(o.doc, func(f string, tm []byte) {
				val := string(tm)
				if env.yield {
					runtime.Gosched()
				}
				fmt.Fprintf(&sb, "%s=%q ", f, val)
			})
			if err != nil {
				return err
			}
		case 4:
			var list []segment.Term
			for _, x := range o.terms {
				list = append(list, x)
			}
			bm, err := env.seg.DocsMatchingTerms(list)
			if err != nil {
				return err
			}
			if !bm.IsEmpty() {
				sb.WriteString(bm.String())
			}
		case 5:
			cs, err := env.seg.CollectionStats(o.field)
			if err != nil {
				return err
			}
			// callers aggregate by merging other statistics INTO the object they got
			other, err := env.seg.CollectionStats("_id")
			if err != nil {
				return err
			}
			before := statsOf(cs)
			cs.Merge(other)
			cs.Merge(&oneDocStats{})
			fresh, err := env.seg.CollectionStats(o.field)
			if err != nil {
				return err
			}
			fmt.Fprintf(&sb, "%+v then %+v", before, statsOf(fresh))
		case 6:
			var buf bytes.Buffer
			_, err := ice.Merge([]segment.Segment{env.seg}, []*roaring.Bitmap{nil}, 0).WriteTo(&buf, nil)
			if err != nil {
				return err
			}
			fmt.Fprintf(&sb, "merged:%d:%x", buf.Len(), hash64(buf.String()))
		case 8:
			if err := cancelledMerge(env.seg); err != nil {
				return err
			}
			sb.WriteString("cancelled-or-complete")
		default:
			var buf bytes.Buffer
			_, err := env.seg.WriteTo(&buf, nil)
			if err != nil {
				return err
			}
			fmt.Fprintf(&sb, "persisted:%d:%x", buf.Len(), hash64(buf.String()))
		}
		res = sb.String()
		return nil
	})
	return res, err
}

var iceFrameRe = regexp.MustCompile(`github\.com/blugelabs/ice/v2\.`)

// opWorker executes the calls of one run sequentially on ONE goroutine (so that
// pooled per-P state such as the visit context pool behaves as it does for a
// single-threaded caller); the test goroutine waits for every result under a
// watchdog.
type opWorker struct {
	in  chan rop
	out chan opResult
}

type opResult struct {
	res string
	err error
}

func newOpWorker(env *ropEnv) *opWorker {
	w := &opWorker{in: make(chan rop), out: make(chan opResult, 1)}
	go func() {
		for o := range w.in {
			r, e := c19Call(o, env)
			w.out <- opResult{r, e}
		}
	}()
	return w
}

func (w *opWorker) stop() { close(w.in) }

// run sends one call to the worker and waits for its result. blocked=true (with
// the goroutine's stack in res) when the call does not return and sits in
// sync.(*Mutex).Lock under an ice frame; infra != "" when it does not return for
// another reason.
func (w *opWorker) run(o rop) (res string, err error, blocked bool, infra string) {
	w.in <- o
	deadline := time.After(30 * time.Second)
	tick := time.NewTicker(2 * time.Second)
	defer tick.Stop()
	for {
		select {
		case x := <-w.out:
			return x.res, x.err, false, ""
		case <-tick.C:
			if st := findBlockedStack(); st != "" {
				return st, nil, true, ""
			}
		case <-deadline:
			buf := make([]byte, 1<<20)
			buf = buf[:runtime.Stack(buf, true)]
			return "", nil, false, "call did not return within 30s and is not blocked on an ice mutex:\n" + string(buf)
		}
	}
}

// runGuarded runs a single call on a fresh worker.
func runGuarded(o rop, env *ropEnv) (res string, err error, blocked bool, infra string) {
	w := newOpWorker(env)
	res, err, blocked, infra = w.run(o)
	if !blocked && infra == "" {
		w.stop()
	}
	return res, err, blocked, infra
}

// c19Call exists so that the watchdog can find the goroutine by this frame.
func c19Call(o rop, env *ropEnv) (string, error) { return o.run(env) }

func findBlockedStack() string {
	buf := make([]byte, 1<<20)
	buf = buf[:runtime.Stack(buf, true)]
	for _, g := range strings.Split(string(buf), "\n\n") {
		if strings.Contains(g, "harness.c19Call") && strings.Contains(g, "sync.(*Mutex).Lock") && iceFrameRe.MatchString(g) {
			return g
		}
	}
	return ""
}

// genDVRops draws a doc-value-centric call sequence for a >1024-document
// segment: one retained reader visiting documents of different chunks.
func genDVRops(t *rapid.T, c *SegCase) []rop {
	n := rapid.IntRange(3, 8).Draw(t, "nOps")
	fields := []string{"a"}
	if rapid.Bool().Draw(t, "twoFields") {
		fields = []string{"b", "a"}
	}
	var ops []rop
	for i := 0; i < n; i++ {
		doc := rapid.SampledFrom([]int{0, 3, 1023, 1024, 1026, 2047, 2048, 2050, c.Exp.N - 1, c.Exp.N - 2}).Draw(t, "dvDoc")
		if doc >= c.Exp.N {
			doc = c.Exp.N - 1
		}
		if rapid.IntRange(0, 5).Draw(t, "other") == 0 {
			ops = append(ops, rop{kind: 2, doc: uint64(doc)})
			continue
		}
		ops = append(ops, rop{kind: 3, doc: uint64(doc), fields: fields})
	}
	return ops
}

func genRops(t *rapid.T, c *SegCase) []rop {
	n := rapid.IntRange(3, 10).Draw(t, "nOps")
	var present []ftTerm
	for _, f := range c.Exp.Fields {
		for _, tm := range sortedKeys(c.Exp.Post[f]) {
			present = append(present, ftTerm{f, tm})
		}
	}
	pickField := func(label string) string {
		if rapid.IntRange(0, 4).Draw(t, label+"Known") > 0 {
			return rapid.SampledFrom(c.Exp.Fields).Draw(t, label)
		}
		return rapid.SampledFrom(ProbeFields).Draw(t, label+"Any")
	}
	pickDoc := func() uint64 {
		if c.Exp.N == 0 {
			return 0
		}
		return uint64(rapid.IntRange(0, c.Exp.N-1).Draw(t, "doc"))
	}
	var ops []rop
	for i := 0; i < n; i++ {
		o := rop{kind: rapid.SampledFrom([]int{0, 0, 1, 1, 1, 2, 2, 3, 3, 4, 5, 6, 7, 8}).Draw(t, "opKind")}
		switch o.kind {
		case 0, 5:
			o.field = pickField("field")
		case 1:
			o.reuse = rapid.Bool().Draw(t, "reuse")
			o.early = rapid.IntRange(0, 3).Draw(t, "stopEarly") == 0
			o.adv = rapid.SampledFrom([]int{0, 0, 1, 2}).Draw(t, "advanceSkip")
			if len(present) > 0 && rapid.IntRange(0, 5).Draw(t, "presentTerm") > 0 {
				p := present[rapid.IntRange(0, len(present)-1).Draw(t, "pt")]
				if rapid.Bool().Draw(t, "longestList") {
					// the term with the most postings: walks that cross chunk boundaries
					for _, q := range present {
						if len(c.Exp.Post[q.f][q.t]) > len(c.Exp.Post[p.f][p.t]) {
							p = q
						}
					}
				}
				o.field, o.term = p.f, p.t
			} else {
				o.field, o.term = pickField("pfield"), rapid.SampledFrom(TermVocab).Draw(t, "pterm")
			}
		case 2:
			o.doc = pickDoc()
			if rapid.IntRange(0, 2).Draw(t, "nestedVisit") == 0 {
				o.nested, o.doc2 = true, pickDoc()
				if c.Exp.N > 128 && rapid.Bool().Draw(t, "nestedOtherBlock") {
					o.doc2 = (o.doc + 128) % uint64(c.Exp.N)
				}
			}
		case 3:
			o.doc = pickDoc()
			o.fields = rapid.SliceOfN(rapid.SampledFrom(c.Exp.Fields), 1, 3).Draw(t, "dvFields")
		case 4:
			k := rapid.IntRange(1, 4).Draw(t, "nTerms")
			for j := 0; j < k; j++ {
				if len(present) > 0 && rapid.IntRange(0, 3).Draw(t, "mPresent") > 0 {
					o.terms = append(o.terms, present[rapid.IntRange(0, len(present)-1).Draw(t, "mt")])
				} else {
					o.terms = append(o.terms, ftTerm{pickField("mfield"), rapid.SampledFrom(TermVocab).Draw(t, "mterm")})
				}
			}
		}
		ops = append(ops, o)
	}
	// with some probability: a walk that stops early followed by a lookup that reuses its list and iterator
	if len(present) > 0 && rapid.IntRange(0, 2).Draw(t, "earlyThenReuse") == 0 {
		a := present[rapid.IntRange(0, len(present)-1).Draw(t, "earlyTerm")]
		b := present[rapid.IntRange(0, len(present)-1).Draw(t, "reuseTerm")]
		// prefer: A's second posting carries many locations (they stay unread in the reused reader),
		// B's first posting has locations but a small frequency
		bestA, bestB := -1, 1<<30
		for _, p := range present {
			pl := c.Exp.Post[p.f][p.t]
			if len(pl) >= 2 && len(pl[1].Locs) > bestA {
				bestA, a = len(pl[1].Locs), p
			}
		}
		for _, p := range present {
			pl := c.Exp.Post[p.f][p.t]
			if p != a && len(pl[0].Locs) > 0 && pl[0].Freq < bestB {
				bestB, b = pl[0].Freq, p
			}
		}
		at := rapid.IntRange(0, len(ops)).Draw(t, "pairAt")
		pair := []rop{{kind: 1, field: a.f, term: a.t, early: true}, {kind: 1, field: b.f, term: b.t, reuse: true}}
		ops = append(ops[:at:at], append(pair, ops[at:]...)...)
	}
	// with some probability: a walk over the longest posting list that skips postings with Advance
	// (the skipped postings' frequencies and locations stay unread in the chunk readers)
	if len(present) > 0 && rapid.Bool().Draw(t, "skipWalk") {
		p := present[0]
		for _, q := range present {
			if len(c.Exp.Post[q.f][q.t]) > len(c.Exp.Post[p.f][p.t]) {
				p = q
			}
		}
		at := rapid.IntRange(0, len(ops)).Draw(t, "skipWalkAt")
		walk := rop{kind: 1, field: p.f, term: p.t, adv: rapid.IntRange(1, 3).Draw(t, "skipWalkAdv"), reuse: rapid.Bool().Draw(t, "skipWalkReuse")}
		ops = append(ops[:at:at], append([]rop{walk}, ops[at:]...)...)
	}
	// with some probability the sequence ends with stored visits re-entered from inside a visitor (two visits
	// overlap: whatever per-visit state an earlier failed call left behind is now used twice at once)
	if c.Exp.N > 0 && rapid.Bool().Draw(t, "nestedAtEnd") {
		for k := rapid.IntRange(1, 2).Draw(t, "nNestedAtEnd"); k > 0; k-- {
			o := rop{kind: 2, nested: true, doc: pickDoc(), doc2: pickDoc()}
			if c.Exp.N > 128 {
				o.doc2 = (o.doc + 128) % uint64(c.Exp.N)
			}
			ops = append(ops, o)
		}
	}
	// segments with several 128-document stored blocks: visit one block, another one, and that one again
	if c.Exp.N > 128 && rapid.IntRange(0, 1).Draw(t, "storedTriple") == 0 {
		d1 := rapid.IntRange(0, c.Exp.N-1).Draw(t, "tripleDoc1")
		d2 := rapid.IntRange(0, c.Exp.N-1).Draw(t, "tripleDoc2")
		if d1/128 == d2/128 {
			d2 = (d2 + 128) % c.Exp.N
		}
		at := rapid.IntRange(0, len(ops)).Draw(t, "tripleAt")
		triple := []rop{{kind: 2, doc: uint64(d1)}, {kind: 2, doc: uint64(d2)}, {kind: 2, doc: uint64(d2)}}
		ops = append(ops[:at:at], append(triple, ops[at:]...)...)
	}
	return ops
}

func c19Prop(st *CaseStats, fam int) func(t *rapid.T) {
	return func(t *rapid.T) {
		if err := selfTestFaultData(); err != nil {
			t.Fatalf("INFRA: %v", err)
		}
		ctx := &Ctx{}
		defer ctx.Close()
		sc := GenScenario(t)
		c, err := GenCase(t, ctx, sc, CaseCfg{Family: fam, MaxDocs: 8, MaxIn: 2, NoBig: true}, rapid.SampledFrom([]int{0, 0, 1}).Draw(t, "depth"), "c")
		if err != nil {
			t.Fatalf("%s: %v", sc, err)
		}
		bs := c.Bytes
		if bs == nil {
			if bs, err = Persist(c.Seg); err != nil {
				t.Fatalf("%s: %v", sc, err)
			}
		}
		f, err := ctx.writeTemp(bs)
		if err != nil {
			t.Fatalf("INFRA: %v", err)
		}
		ops := genRops(t, c)
		if fam == FamWide {
			ops = genDVRops(t, c)
		}
		desc := fmt.Sprintf("%s file-backed %s calls=%v", sc, c.Desc, ops)
		fresh := func() (*ropEnv, *faultReader) {
			d, fr, err := faultData(f)
			if err != nil {
				t.Fatalf("INFRA: %v", err)
			}
			seg, err := ice.Load(d)
			if err != nil {
				t.Fatalf("%s: fault-free Load failed: %v", desc, err)
			}
			return &ropEnv{seg: seg, dvr: map[string]segment.DocumentValueReader{}}, fr
		}
		// fault-free run
		env, fr := fresh()
		fr.arm(-1)
		good := make([]string, len(ops))
		opStart := make([]int, len(ops))
		w0 := newOpWorker(env)
		for i, o := range ops {
			opStart[i] = int(fr.calls.Load())
			res, err, blocked, infra := w0.run(o)
			if infra != "" {
				t.Fatalf("INFRA: %s", infra)
			}
			if blocked || err != nil {
				t.Fatalf("%s:\n  fault-free call #%d %s failed: %v", desc, i, o, err)
			}
			good[i] = res
		}
		w0.stop()
		total := int(fr.calls.Load())
		inner := 0
		nt := false
		staleEmpty := 0
		var ks []int
		if total <= 300 {
			for k := 0; k <= total; k++ {
				ks = append(ks, k)
			}
		} else {
			// long read sequences (block family): the first 120 and last 20
			// fault points exhaustively, a stride in between
			stride := total / 150
			nearOpStart := map[int]bool{}
			for _, s0 := range opStart {
				for j := 0; j <= 40; j++ {
					nearOpStart[s0+j] = true
				}
			}
			for k := 0; k <= total; k++ {
				if k <= 120 || k >= total-20 || k%stride == 0 || nearOpStart[k] {
					ks = append(ks, k)
				}
			}
			st.Label("fault-points-sampled-cases", 1)
		}
		type faultMode struct {
			k, window int
		}
		var modes []faultMode
		for _, k := range ks {
			modes = append(modes, faultMode{k, 0})
		}
		// transient faults: a window of 1..3 failing reads, then the storage works again
		win := rapid.IntRange(1, 3).Draw(t, "transientWindow")
		for i, k := range ks {
			if len(ks) <= 150 || i%3 == 0 {
				modes = append(modes, faultMode{k, win})
			}
		}
		// a single failing read at each of the first reads of every call
		for _, s0 := range opStart {
			for j := 0; j <= 8 && s0+j <= total; j++ {
				modes = append(modes, faultMode{s0 + j, 1})
			}
		}
		for _, fm := range modes {
			k := fm.k
			env, fr := fresh()
			if fm.window > 0 {
				fr.armWindow(int64(k), int64(fm.window))
			} else {
				fr.arm(int64(k))
			}
			firstFail := -1
			w := newOpWorker(env)
			for i, o := range ops {
				before := fr.failures.Load()
				res, err, blocked, infra := w.run(o)
				inner++
				if infra != "" {
					t.Fatalf("INFRA: %s", infra)
				}
				if blocked {
					t.Fatalf("%s:\n  storage fails from read #%d on: call #%d %s never returns, it is blocked on a mutex inside ice (an earlier failed call left it locked):\n%s", desc, k, i, o, infraTrim(res))
				}
				sawFailure := fr.failures.Load() > before
				if isPanic(err) {
					t.Fatalf("%s:\n  storage fails from read #%d on: call #%d %s: %v", desc, k, i, o, err)
				}
				if sawFailure {
					if firstFail < 0 {
						firstFail = i
					}
					if err == nil && res != "" && res != good[i] && !(o.kind == 3 && dvFieldwiseSubset(res, good[i])) {
						t.Fatalf("%s:\n  storage fails from read #%d on: call #%d %s saw a failing read but returned no error and a wrong non-empty result %q (fault-free: %q)", desc, k, i, o, res, good[i])
					}
					if err == nil && res != "" && res == good[i] && o.kind != 8 {
						// the property's first clause, literally: a call during which the storage returned an error
						// reports an error or an empty result - not its complete result as if nothing had happened
						// (never observed on the repaired tree in several million enumerated faults before this
						// became a violation; kind 8, the cancelled merge, legitimately stops reading at any time)
						t.Fatalf("%s:\n  storage fails from read #%d on (window %d): call #%d %s saw a failing storage read but reported neither an error nor an empty result: %q", desc, k, fm.window, i, o, res)
					}
				} else if firstFail < 0 {
					// the storage has not failed yet: plain correctness
					if err != nil {
						t.Fatalf("%s:\n  storage fails from read #%d on: call #%d %s ran before any failing read but returned error %v", desc, k, i, o, err)
					}
					if res != good[i] {
						t.Fatalf("%s:\n  storage fails from read #%d on: call #%d %s ran before any failing read but returned %q instead of %q", desc, k, i, o, res, good[i])
					}
				} else {
					// after the storage started failing, a call served from warm caches must be correct,
					// or report an error / an empty result (a cache invalidated by the earlier failure);
					// a different non-empty result would be silently wrong data
					if err == nil && res != "" && res != good[i] && !(o.kind == 3 && dvFieldwiseSubset(res, good[i])) {
						t.Fatalf("%s:\n  storage fails from read #%d on: call #%d %s (after the first failed call, no storage read of its own) returned no error and a wrong non-empty result %q (fault-free: %q)", desc, k, i, o, res, good[i])
					}
					if err == nil && res == "" && good[i] != "" {
						staleEmpty++
					}
				}
			}
			w.stop()
			if k >= 1 && firstFail >= 0 && firstFail < len(ops)-1 {
				nt = true
			}
		}
		st.AddInner(inner)
		st.Label("fault-points", len(modes))
		st.Label("later-call-empty-instead-of-cached-result(allowed)", staleEmpty)

		st.Record(desc, nt, c.LabelList()...)
	}
}

// dvFieldwiseSubset: a doc-value visit over several fields consults one reader per
// field; after a storage failure some of them may answer "nothing" (an empty result
// for that field, which the property allows) while others still answer from their
// cache. Every field's values must be exactly the fault-free ones or absent; values
// that the fault-free run did not deliver for that field are never acceptable.
func dvFieldwiseSubset(got, want string) bool {
	parse := func(s string) (map[string]string, bool) {
		m := map[string]string{}
		for _, tok := range strings.Split(strings.TrimSpace(s), " ") {
			if tok == "" {
				continue
			}
			i := strings.Index(tok, "=")
			if i < 0 {
				return nil, false
			}
			m[tok[:i]] += tok[i:] + " "
		}
		return m, true
	}
	g, ok1 := parse(got)
	w, ok2 := parse(want)
	if !ok1 || !ok2 {
		return false
	}
	for f, v := range g {
		if w[f] != v {
			return false
		}
	}
	return true
}

func infraTrim(s string) string {
	if len(s) > 3000 {
		return s[:3000]
	}
	return s
}

func TestC19Small(t *testing.T) {
	st := NewStats("C19Small", c19Rule)
	defer st.Flush()
	rapid.Check(t, c19Prop(st, FamSmall))
}

func TestC19Wide(t *testing.T) {
	st := NewStats("C19Wide", c19Rule)
	defer st.Flush()
	rapid.Check(t, c19Prop(st, FamWide))
}

func TestC19Blocks(t *testing.T) {
	st := NewStats("C19Blocks", c19Rule)
	defer st.Flush()
	rapid.Check(t, c19Prop(st, FamBlocks))
}

var _ = os.Remove

func TestC19Mid(t *testing.T) {
	st := NewStats("C19Mid", c19Rule)
	defer st.Flush()
	rapid.Check(t, c19Prop(st, FamMid))
}
