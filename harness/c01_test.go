package harness

import (
	"testing"

	ice "github.com/blugelabs/ice/v2"
	"pgregory.net/rapid"
)

// C01 — a built segment returns exactly the postings its documents imply.
const c01Rule = "case = (scenario, batch, norm function, chunk mode) built with New; non-trivial = >=2 documents and at least one of: " +
	"posting list spanning >=2 chunks, repeated field name in a document, term listed twice in a field, location naming another field, " +
	"empty or binary term, term with >=1024 hits; distinct = 64-bit hash of the canonical case text"

func c01Prop(st *CaseStats, fam int) func(t *rapid.T) {
	return func(t *rapid.T) {
		ctx := &Ctx{}
		defer ctx.Close()
		sc := GenScenario(t)
		c, err := GenLeaf(t, ctx, sc, CaseCfg{Family: fam, MaxDocs: 8}, "s")
		if err != nil {
			t.Fatalf("%v", err)
		}
		if c.Seg.Type() != ice.Type || c.Seg.Version() != ice.Version {
			t.Fatalf("type/version: %s/%d", c.Seg.Type(), c.Seg.Version())
		}
		obs, err := Observe(c.Seg, ProbeFields, Facets{Postings: true, Counts: true})
		if err != nil {
			t.Fatalf("case %s %s: %v", sc, c.Desc, err)
		}
		if d := Diff(c.Exp, obs, Facets{Postings: true, Counts: true}); d != "" {
			t.Fatalf("case %s %s:\n  %s", sc, c.Desc, d)
		}
		labelsExtra := []string{}
		if fam != FamWide && fam != FamHuge && fam != FamSparse && fam != FamCounts && rapid.Bool().Draw(t, "buildLater") {
			// the segment keeps answering the same whatever is built afterwards (pooled builder state)
			for k := rapid.IntRange(1, 2).Draw(t, "nLater"); k > 0; k-- {
				later := GenBatch(t, sc, 5)
				if _, err := Build(later, sc.Norm, rapid.SampledFrom(ChunkModes).Draw(t, "laterMode")); err != nil {
					t.Fatalf("case %s: later build: %v", sc, err)
				}
			}
			obs2, err := Observe(c.Seg, ProbeFields, Facets{Postings: true, Counts: true})
			if err != nil {
				t.Fatalf("case %s %s: after later builds: %v", sc, c.Desc, err)
			}
			if d := Diff(c.Exp, obs2, Facets{Postings: true, Counts: true}); d != "" {
				t.Fatalf("case %s %s:\n  after building other batches: %s", sc, c.Desc, d)
			}
			labelsExtra = append(labelsExtra, "re-observed-after-later-builds")
		}
		nt := c.Exp.N >= 2 && (c.Labels["multi-chunk"] || c.Labels["repeated-field"] || c.Labels["term-twice-in-field"] ||
			c.Labels["loc-other-field"] || c.Labels["empty-term"] || c.Labels["binary-term"] || c.Labels["term>=1024-hits"] || fam == FamCounts)
		st.Record(sc.String()+" "+c.Desc, nt, append(c.LabelList(), labelsExtra...)...)
	}
}

func TestC01Small(t *testing.T) {
	st := NewStats("C01Small", c01Rule)
	defer st.Flush()
	rapid.Check(t, c01Prop(st, FamSmall))
}

func TestC01Blocks(t *testing.T) {
	st := NewStats("C01Blocks", c01Rule)
	defer st.Flush()
	rapid.Check(t, c01Prop(st, FamBlocks))
}

func TestC01Wide(t *testing.T) {
	st := NewStats("C01Wide", c01Rule)
	defer st.Flush()
	rapid.Check(t, c01Prop(st, FamWide))
}

// TestC01Regress replays shrunk failures without the library.
func TestC01Regress(t *testing.T) {
	// F1: a term listed twice in one field of one document, the second
	// occurrence carrying a location that names another field.
	b := Batch{{Fields: []Field{
		{Name: "b", Len: 1, Terms: []Term{{T: "", Freq: 1}}},
		{Name: "_id", Len: 3, Terms: []Term{{T: "", Freq: 1}, {T: "", Freq: 1, Locs: []Loc{{Field: "b"}}}}},
	}}}
	for _, mode := range []uint32{1, 1025} {
		seg, err := Build(b, normFns[0], mode)
		if err != nil {
			t.Fatal(err)
		}
		obs, err := Observe(seg, ProbeFields, Facets{Postings: true, Counts: true})
		if err != nil {
			t.Fatal(err)
		}
		if d := Diff(Expect(b, normFns[0].F), obs, Facets{Postings: true, Counts: true}); d != "" {
			t.Fatalf("F1 (repeated term, location naming another field): %s", d)
		}
	}
}

func TestC01Mid(t *testing.T) {
	st := NewStats("C01Mid", c01Rule)
	defer st.Flush()
	rapid.Check(t, c01Prop(st, FamMid))
}

func TestC01ManyFields(t *testing.T) {
	st := NewStats("C01ManyFields", c01Rule)
	defer st.Flush()
	rapid.Check(t, c01Prop(st, FamManyFields))
}

func TestC01Huge(t *testing.T) {
	st := NewStats("C01Huge", c01Rule)
	defer st.Flush()
	rapid.Check(t, c01Prop(st, FamHuge))
}

func TestC01Terms(t *testing.T) {
	st := NewStats("C01Terms", c01Rule)
	defer st.Flush()
	rapid.Check(t, c01Prop(st, FamTerms))
}

func TestC01Sparse(t *testing.T) {
	st := NewStats("C01Sparse", c01Rule)
	defer st.Flush()
	rapid.Check(t, c01Prop(st, FamSparse))
}

func TestC01Counts(t *testing.T) {
	st := NewStats("C01Counts", c01Rule)
	defer st.Flush()
	rapid.Check(t, c01Prop(st, FamCounts))
}
