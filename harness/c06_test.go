package harness

import (
	"fmt"
	"testing"

	segment "github.com/blugelabs/bluge_segment_api"
	"pgregory.net/rapid"
)

// C06 — stored fields of a document are returned exactly and only for that document.
const c06Rule = "case = segment (small / 128-document-block families; built, memory-loaded, file-loaded, merged via copy and re-encode paths) plus a drawn sequence of " +
	"VisitStoredFields calls in arbitrary order (random, last-of-block, first-of-next-block, back again, n >= Count), each with a visitor that stops after a drawn number of values; " +
	"oracle = model's stored list per document (exact (field,value) sequence, exactly the first k callbacks on early stop, nothing for n >= Count); " +
	"non-trivial = segment has >=2 stored blocks and the sequence visits a block's last document right after a different block, or a visited document has >=2 values in one field, " +
	"or a visited document has no stored field; distinct = hash of case text + visit sequence"

type visit struct {
	Doc  uint64
	Stop int // stop after this many values (0: never stop)
}

func genVisits(t *rapid.T, n int, count int) []visit {
	var vs []visit
	for i := 0; i < count; i++ {
		var d int
		kind := rapid.IntRange(0, 7).Draw(t, "visitKind")
		nb := (n + 127) / 128
		switch {
		case n == 0:
			d = rapid.IntRange(0, 3).Draw(t, "doc")
		case kind == 0 && nb > 0: // last document of a block (or of the segment)
			b := rapid.IntRange(0, nb-1).Draw(t, "blk")
			d = b*128 + 127
			if d >= n {
				d = n - 1
			}
		case kind == 1 && nb > 0: // first document of a block
			d = rapid.IntRange(0, nb-1).Draw(t, "blk") * 128
		case kind == 2:
			d = n + rapid.SampledFrom([]int{0, 1, 127, 128, 5000}).Draw(t, "beyond")
		default:
			d = rapid.IntRange(0, n-1).Draw(t, "doc")
		}
		vs = append(vs, visit{Doc: uint64(d), Stop: rapid.SampledFrom([]int{0, 0, 0, 1, 2, 3}).Draw(t, "stop")})
	}
	return vs
}

// runVisit performs one visit and compares with the model.
func runVisit(seg segment.Segment, exp *XSeg, v visit) error {
	var got []XStored
	err := safely("VisitStoredFields", func() error {
		return seg.VisitStoredFields(v.Doc, func(f string, val []byte) bool {
			got = append(got, XStored{f, string(val)})
			return !(v.Stop > 0 && len(got) >= v.Stop)
		})
	})
	if err != nil {
		return fmt.Errorf("VisitStoredFields(%d): %v", v.Doc, err)
	}
	var want []XStored
	if v.Doc < uint64(exp.N) {
		want = exp.Stored[v.Doc]
		if v.Stop > 0 && len(want) > v.Stop {
			want = want[:v.Stop]
		}
	}
	if len(got) != len(want) {
		return fmt.Errorf("VisitStoredFields(%d, stop after %d): expected %q, got %q", v.Doc, v.Stop, want, got)
	}
	for i := range want {
		if want[i] != got[i] {
			return fmt.Errorf("VisitStoredFields(%d, stop after %d): expected %q, got %q", v.Doc, v.Stop, want, got)
		}
	}
	return nil
}

func c06Prop(st *CaseStats, fam int) func(t *rapid.T) {
	return func(t *rapid.T) {
		ctx := &Ctx{}
		defer ctx.Close()
		sc := GenScenario(t)
		cfg := CaseCfg{Family: fam, MaxDocs: 8, MaxIn: 3, HoldAny: true}
		depth := rapid.SampledFrom([]int{0, 0, 1, 1, 2}).Draw(t, "depth")
		if fam == FamBlocks {
			cfg.MaxIn = 2
			depth = rapid.SampledFrom([]int{0, 0, 1}).Draw(t, "depth")
		}
		if fam == FamGiant {
			cfg.MaxIn = 1
			depth = rapid.SampledFrom([]int{0, 0, 1}).Draw(t, "depthGiant")
		}
		c, err := GenCase(t, ctx, sc, cfg, depth, "c")
		if err != nil {
			t.Fatalf("%s: %v", sc, err)
		}
		vs := genVisits(t, c.Exp.N, rapid.IntRange(1, 12).Draw(t, "nVisits"))
		labels := c.LabelList()
		nt := false
		prevBlk := int64(-1)
		for i, v := range vs {
			if err := runVisit(c.Seg, c.Exp, v); err != nil {
				t.Fatalf("case %s %s\n  visits %v (failed at #%d): %v", sc, c.Desc, vs, i, err)
			}
			if v.Doc < uint64(c.Exp.N) {
				blk := int64(v.Doc / 128)
				lastOfBlk := v.Doc%128 == 127 || v.Doc == uint64(c.Exp.N-1)
				if c.Exp.N > 128 && prevBlk >= 0 && prevBlk != blk && lastOfBlk {
					nt = true
					labels = append(labels, "last-of-block-after-other-block")
				}
				prevBlk = blk
				s := c.Exp.Stored[v.Doc]
				if len(s) == 0 {
					nt = true
					labels = append(labels, "doc-without-stored")
				}
				for j := 1; j < len(s); j++ {
					if s[j].Field == s[j-1].Field {
						nt = true
						labels = append(labels, "two-values-one-field")
						break
					}
				}
				if v.Stop > 0 && len(s) > v.Stop {
					labels = append(labels, "early-stop")
				}
			} else {
				labels = append(labels, "n>=Count")
			}
		}
		st.Record(fmt.Sprintf("%s %s visits=%v", sc, c.Desc, vs), nt, dedup(labels)...)
	}
}

func dedup(ls []string) []string {
	seen := map[string]bool{}
	var rv []string
	for _, l := range ls {
		if !seen[l] {
			seen[l] = true
			rv = append(rv, l)
		}
	}
	return rv
}

func TestC06Small(t *testing.T) {
	st := NewStats("C06Small", c06Rule)
	defer st.Flush()
	rapid.Check(t, c06Prop(st, FamSmall))
}

func TestC06Blocks(t *testing.T) {
	st := NewStats("C06Blocks", c06Rule)
	defer st.Flush()
	rapid.Check(t, c06Prop(st, FamBlocks))
}

func TestC06ManyFields(t *testing.T) {
	st := NewStats("C06ManyFields", c06Rule)
	defer st.Flush()
	rapid.Check(t, c06Prop(st, FamManyFields))
}

func TestC06Giant(t *testing.T) {
	st := NewStats("C06Giant", c06Rule)
	defer st.Flush()
	rapid.Check(t, c06Prop(st, FamGiant))
}
