package harness

// Case statistics: every property function classifies its case, decides by
// its stated rule whether it is non-trivial, and records a hash of the
// canonical case. The driver assembles the evidence file from the JSON each
// test process writes.

import (
	"encoding/json"
	"hash/fnv"
	"os"
	"path/filepath"
	"sort"
	"sync"
)

type CaseStats struct {
	mu         sync.Mutex
	name       string
	evals      int
	inner      int
	labels     map[string]int
	nontrivial map[uint64]struct{}
	samples    []string
	nSampled   int
	rule       string
}

func NewStats(name, rule string) *CaseStats {
	return &CaseStats{name: name, labels: map[string]int{}, nontrivial: map[uint64]struct{}{}, rule: rule}
}

func hash64(s string) uint64 {
	h := fnv.New64a()
	h.Write([]byte(s))
	return h.Sum64()
}

// Record one evaluated case.
func (s *CaseStats) Record(canon string, nontrivial bool, labels ...string) {
	s.mu.Lock()
	defer s.mu.Unlock()
	s.evals++
	for _, l := range labels {
		s.labels[l]++
	}
	if nontrivial {
		h := hash64(canon)
		if _, ok := s.nontrivial[h]; !ok {
			s.nontrivial[h] = struct{}{}
			n := len(s.nontrivial)
			// keep the 1st, 2nd, 3rd, 10th, 100th, 1000th ... distinct non-trivial case
			if n <= 3 || n == 10 || n == 100 || n == 1000 || n == 10000 {
				c := canon
				if len(c) > 1500 {
					c = c[:1500] + "...(truncated)"
				}
				s.samples = append(s.samples, c)
			}
		}
	}
}

// AddInner counts evaluations made by an exhaustive inner loop of a case
// (every fault offset, every storage-read index).
func (s *CaseStats) AddInner(n int) {
	s.mu.Lock()
	s.inner += n
	s.mu.Unlock()
}

func (s *CaseStats) Label(l string, n int) {
	s.mu.Lock()
	s.labels[l] += n
	s.mu.Unlock()
}

type statsJSON struct {
	Name               string         `json:"name"`
	Evaluations        int            `json:"evaluations"`
	InnerEvaluations   int            `json:"inner_evaluations"`
	DistinctNontrivial int            `json:"distinct_nontrivial"`
	Hashes             []uint64       `json:"hashes"`
	Labels             map[string]int `json:"labels"`
	Samples            []string       `json:"samples"`
	Rule               string         `json:"rule"`
	HooksOn            bool           `json:"hooks_on"`
}

// Flush writes the statistics to $VERIF_STATS_DIR/<name>.json (no-op when the
// variable is unset).
func (s *CaseStats) Flush() {
	dir := os.Getenv("VERIF_STATS_DIR")
	if dir == "" {
		return
	}
	s.mu.Lock()
	defer s.mu.Unlock()
	hs := make([]uint64, 0, len(s.nontrivial))
	for h := range s.nontrivial {
		hs = append(hs, h)
	}
	sort.Slice(hs, func(i, j int) bool { return hs[i] < hs[j] })
	out := statsJSON{Name: s.name, Evaluations: s.evals, InnerEvaluations: s.inner, DistinctNontrivial: len(hs),
		Hashes: hs, Labels: s.labels, Samples: s.samples, Rule: s.rule, HooksOn: HooksOn}
	b, _ := json.Marshal(out)
	_ = os.MkdirAll(dir, 0o755)
	_ = os.WriteFile(filepath.Join(dir, s.name+".json"), b, 0o644)
}
