package harness

import (
	"bytes"
	"crypto/sha256"
	"fmt"
	"os"
	"os/exec"
	"regexp"
	"runtime"
	"strings"
	"sync"
	"testing"

	"pgregory.net/rapid"
)

// C14 — builder output depends only on its input, not on history or concurrency.
const c14Rule = "case = a target (batch, norm, chunk mode) drawn once, then a history of <=12 actions: build another drawn batch (small / block family, larger or smaller, with and without locations " +
	"and doc values), build a failing batch (unknown chunk mode: errors after partial work), force two GCs (empties the pool -> cold build), run 2..8 concurrent builders of different batches around the target; " +
	"after every action the target is rebuilt; oracle (metamorphic) = every build of the target yields bytes identical to the first, cold build; " +
	"non-trivial = a target build started from a recycled builder object after a build of a different shape, or ran concurrently with >=1 other build; distinct = hash of case text + history"

func buildBytes(b Batch, norm NormFn, mode uint32) ([]byte, error) {
	seg, err := Build(b, norm, mode)
	if err != nil {
		return nil, err
	}
	bs, err := Persist(seg)
	// the segment is discarded; the slice its Fields() returned is the caller's to scribble on (that
	// ruins THIS segment object, which nobody uses again, and must not reach any later build)
	if fs := seg.Fields(); len(fs) >= 2 {
		for i, j := 0, len(fs)-1; i < j; i, j = i+1, j-1 {
			fs[i], fs[j] = fs[j], fs[i]
		}
	}
	return bs, err
}

func genAnyBatch(t *rapid.T, sc *Scenario, label string) (Batch, string) {
	switch rapid.IntRange(0, 8).Draw(t, label+":kind") {
	case 8:
		if label != "target" { // a >1024-document batch with doc values as a predecessor (pooled coders get sized by it)
			p := GenWide(t)
			return p.Batch(sc), p.String()
		}
		fallthrough
	case 6, 7:
		b := manyTermsBatch(t, label)
		return b, fmt.Sprintf("many-terms{%d docs x %d terms}", len(b), len(b[0].Fields[0].Terms))
	case 0:
		p := GenBlocks(t)
		return p.Batch(sc), p.String()
	case 1:
		b := genPostingBatch(t, sc)
		return b, "posting-batch " + b.String()
	default:
		b := GenBatch(t, sc, 10)
		return b, b.String()
	}
}

func c14Prop(st *CaseStats) func(t *rapid.T) {
	return func(t *rapid.T) {
		sc := GenScenario(t)
		target, tdesc := genAnyBatch(t, sc, "target")
		mode := rapid.SampledFrom(ChunkModes).Draw(t, "mode")
		if !HooksOn {
			mode = 1025
		}
		desc := fmt.Sprintf("%s target(mode=%d){%s}", sc, mode, tdesc)
		// cold start: empty the pool first
		runtime.GC()
		runtime.GC()
		first, err := buildBytes(target, sc.Norm, mode)
		if err != nil {
			t.Fatalf("%s: %v", desc, err)
		}
		hist := ""
		nt := false
		var labels []string
		nAct := rapid.IntRange(1, 12).Draw(t, "nActions")
		for a := 0; a < nAct; a++ {
			concurrent := false
			prevOther := false
			switch rapid.IntRange(0, 7).Draw(t, "action") {
			case 0, 1, 2:
				ob, od := genAnyBatch(t, sc, "other")
				om := rapid.SampledFrom(ChunkModes).Draw(t, "otherMode")
				on := normFns[rapid.IntRange(0, len(normFns)-1).Draw(t, "otherNorm")]
				hist += fmt.Sprintf(" build(%d docs, mode %d)", len(ob), om)
				_ = od
				if _, err := buildBytes(ob, on, om); err != nil {
					t.Fatalf("%s history%s: %v", desc, hist, err)
				}
				prevOther = true
			case 3:
				if HooksOn {
					fb := genPostingBatch(t, sc)
					hist += " failingBuild"
					_, err := Build(fb, sc.Norm, 5000) // unknown chunk mode: fails after the stored section was written
					if err == nil && len(Expect(fb, sc.Norm.F).Post["a"]) > 0 {
						t.Fatalf("%s history%s: build with chunk mode 5000 did not fail", desc, hist)
					}
					labels = append(labels, "after-failed-build")
				}
			case 4, 7:
				hist += " GCx2"
				runtime.GC()
				runtime.GC()
				labels = append(labels, "cold-rebuild")
				if rapid.Bool().Draw(t, "tinyAfterGC") {
					// the first build on the emptied pool is a tiny one: pooled helpers get sized by it
					hist += "+tinyBuild"
					tiny := Batch{{Fields: []Field{{Name: "a", Len: 1, Terms: []Term{{T: "x", Freq: 1}}}}}}
					if _, err := buildBytes(tiny, sc.Norm, 1025); err != nil {
						t.Fatalf("%s history%s: %v", desc, hist, err)
					}
					labels = append(labels, "tiny-build-on-empty-pool")
				}
			default:
				k := rapid.IntRange(2, 8).Draw(t, "k")
				type job struct {
					b    Batch
					norm NormFn
					mode uint32
				}
				jobs := make([]job, k)
				for i := range jobs {
					if i == 0 {
						jobs[i] = job{target, sc.Norm, mode}
						continue
					}
					ob, _ := genAnyBatch(t, sc, "conc")
					jobs[i] = job{ob, normFns[rapid.IntRange(0, len(normFns)-1).Draw(t, "concNorm")], rapid.SampledFrom(ChunkModes).Draw(t, "concMode")}
				}
				hist += fmt.Sprintf(" concurrent(%d)", k)
				noteCurrentCase(desc + " history" + hist)
				outs := make([][]byte, k)
				errs := make([]error, k)
				var wg sync.WaitGroup
				start := make(chan struct{})
				for i := range jobs {
					wg.Add(1)
					go func(i int) {
						defer wg.Done()
						<-start
						outs[i], errs[i] = buildBytes(jobs[i].b, jobs[i].norm, jobs[i].mode)
					}(i)
				}
				close(start)
				wg.Wait()
				for i := range errs {
					if errs[i] != nil {
						t.Fatalf("%s history%s: concurrent build %d: %v", desc, hist, i, errs[i])
					}
				}
				if !bytes.Equal(outs[0], first) {
					t.Fatalf("%s history%s:\n  the target built concurrently with %d other builds differs from its first build (%d vs %d bytes, first difference at byte %d)",
						desc, hist, k-1, len(outs[0]), len(first), firstDiff(outs[0], first))
				}
				concurrent = true
				nt = true
				labels = append(labels, "concurrent-builders")
			}
			used, known := hookPoolHoldsUsed()
			again, err := buildBytes(target, sc.Norm, mode)
			if err != nil {
				t.Fatalf("%s history%s: rebuilding the target: %v", desc, hist, err)
			}
			if !bytes.Equal(again, first) {
				t.Fatalf("%s history%s:\n  rebuilding the target yields different bytes (%d vs %d bytes, first difference at byte %d; pool held a used object: %v)",
					desc, hist, len(again), len(first), firstDiff(again, first), used)
			}
			if known && used {
				labels = append(labels, "target-on-recycled-builder")
				if prevOther {
					nt = true
					labels = append(labels, "recycled-after-different-shape")
				}
			}
			_ = concurrent
		}
		st.Record(desc+" history"+hist, nt, dedup(labels)...)
	}
}

func TestC14(t *testing.T) {
	st := NewStats("C14", c14Rule)
	defer st.Flush()
	rapid.Check(t, c14Prop(st))
}

// Long histories: counters kept on pooled builder state (per document, per
// build) come back to the value they had during the first build of the target
// after exactly 2^8 / 2^16 documents or builds. The test owns the schedule
// (one P, so the pool hands the same builder back every time).
const c14LongRule = "case = a small target built cold, then filler builds (empty / _id-only / one-field documents, batches of 1..1024) drawn so that the number of documents or of builds between the two builds of the target is exactly " +
	"2^8 or 2^16 (or off by a drawn jitter), then the target again, on one P so that the pooled builder is reused throughout; oracle = identical bytes; " +
	"non-trivial = exact 2^16 alignment (documents or builds) reached and the second build started from a recycled builder; distinct = hash of case text"

func c14LongProp(st *CaseStats) func(t *rapid.T) {
	return func(t *rapid.T) {
		sc := GenScenario(t)
		var target Batch
		var tdesc string
		for len(target) == 0 {
			if rapid.Bool().Draw(t, "targetPosting") {
				target = genPostingBatch(t, sc)
			} else {
				target = GenBatch(t, sc, 6)
			}
			tdesc = target.String()
			if len(target) == 0 {
				target = Batch{{Fields: []Field{{Name: "title", Len: 1, Terms: []Term{{T: "x", Freq: 1}}}}}}
			}
		}
		mode := rapid.SampledFrom(ChunkModes).Draw(t, "mode")
		if !HooksOn {
			mode = 1025
		}
		wrap := rapid.SampledFrom([]int{1 << 8, 1 << 16, 1 << 16, 1 << 16}).Draw(t, "wrap")
		align := rapid.SampledFrom([]string{"docs", "docs", "docs", "builds"}).Draw(t, "align")
		jitter := rapid.SampledFrom([]int{0, 0, 0, 0, 1, -1, 2}).Draw(t, "jitter")
		fillKind := rapid.IntRange(0, 2).Draw(t, "fillKind")
		maxBatch := rapid.SampledFrom([]int{1, 7, 256, 1000, 1024}).Draw(t, "maxBatch")
		if align == "builds" {
			maxBatch = 1
		}
		desc := fmt.Sprintf("%s target(mode=%d){%s} wrap=%d align=%s jitter=%d fillKind=%d maxBatch=%d", sc, mode, tdesc, wrap, align, jitter, fillKind, maxBatch)
		old := runtime.GOMAXPROCS(1)
		defer runtime.GOMAXPROCS(old)
		runtime.GC()
		runtime.GC()
		first, err := buildBytes(target, sc.Norm, mode)
		if err != nil {
			t.Fatalf("%s: %v", desc, err)
		}
		fillDoc := func(i int) Doc {
			switch fillKind {
			case 0:
				return Doc{}
			case 1:
				return Doc{Fields: []Field{{Name: "_id", Len: 1, Terms: []Term{{T: fmt.Sprintf("i%d", i%10), Freq: 1}}}}}
			}
			return Doc{Fields: []Field{{Name: "a", Len: 1, Terms: []Term{{T: "f", Freq: 1}}}}}
		}
		// documents (or builds) strictly between the two builds of the target
		var total int
		if align == "docs" {
			total = wrap - len(target) + jitter // document j of the target is processed exactly wrap documents after its first time
		} else {
			total = wrap - 1 + jitter // the second build of the target is exactly wrap builds after the first
		}
		if total < 0 {
			total = 0
		}
		filler := make(Batch, 0, maxBatch)
		builds := 0
		for done := 0; done < total; {
			n := maxBatch
			if n > total-done {
				n = total - done
			}
			filler = filler[:0]
			for i := 0; i < n; i++ {
				filler = append(filler, fillDoc(done+i))
			}
			if _, err := Build(filler, sc.Norm, 1025); err != nil {
				t.Fatalf("%s: filler build: %v", desc, err)
			}
			done += n
			builds++
		}
		used, known := hookPoolHoldsUsed()
		again, err := buildBytes(target, sc.Norm, mode)
		if err != nil {
			t.Fatalf("%s: rebuilding the target: %v", desc, err)
		}
		if !bytes.Equal(again, first) {
			t.Fatalf("%s:\n  after %d filler builds holding %d documents the target builds to different bytes (%d vs %d bytes, first difference at byte %d; pool held a used object: %v)",
				desc, builds, total, len(again), len(first), firstDiff(again, first), used)
		}
		labels := []string{fmt.Sprintf("wrap-%d-%s", wrap, align)}
		if known && used {
			labels = append(labels, "target-on-recycled-builder")
		}
		st.Record(desc, wrap == 1<<16 && jitter == 0 && (!known || used), labels...)
	}
}

func TestC14Long(t *testing.T) {
	st := NewStats("C14Long", c14LongRule)
	defer st.Flush()
	rapid.Check(t, c14LongProp(st))
}

// Very large vocabularies: pooled per-postings-list state beyond 2^16 / 2^19
// lists. Two batches with more distinct (field, term) pairs than the
// threshold, shaped differently (so that the same postings-list id belongs to
// other documents), built alternately on one pooled builder.
const c14VocabRule = "case = batch B (nB documents x tB terms unique to the document) built cold, then batch A (another shape, at least as many distinct terms) on the same pooled builder (one P), then B again; total distinct terms > 2^16 (quick and thorough) and > 2^19 (thorough only); " +
	"oracle = identical bytes (and no panic); non-trivial = both batches exceed the threshold and the second build of B started from a recycled builder; distinct = threshold"

func uniqueTermsBatch(nDocs, perDoc int, tag string) Batch {
	b := make(Batch, nDocs)
	for d := range b {
		f := Field{Name: "body", Len: perDoc}
		f.Terms = make([]Term, perDoc)
		for k := range f.Terms {
			f.Terms[k] = Term{T: fmt.Sprintf("%s%d-%d", tag, d, k), Freq: 1}
		}
		b[d].Fields = []Field{f}
	}
	return b
}

func c14Vocab(t *testing.T, st *CaseStats, nB, tB, nA, tA int) {
	old := runtime.GOMAXPROCS(1)
	defer runtime.GOMAXPROCS(old)
	desc := fmt.Sprintf("B=%dx%d A=%dx%d", nB, tB, nA, tA)
	B := uniqueTermsBatch(nB, tB, "b")
	runtime.GC()
	runtime.GC()
	ref, err := buildBytes(B, normFns[0], 1025)
	if err != nil {
		t.Fatalf("%s: %v", desc, err)
	}
	runtime.GC()
	runtime.GC()
	A := uniqueTermsBatch(nA, tA, "a")
	if _, err := Build(A, normFns[0], 1025); err != nil {
		t.Fatalf("%s: building A: %v", desc, err)
	}
	A = nil
	used, known := hookPoolHoldsUsed()
	again, err := buildBytes(B, normFns[0], 1025)
	if err != nil {
		t.Fatalf("%s:\n  rebuilding B after A on the same pooled builder: %v", desc, err)
	}
	if !bytes.Equal(again, ref) {
		t.Fatalf("%s:\n  B built after A differs from B built cold (%d vs %d bytes, first difference at %d)", desc, len(again), len(ref), firstDiff(again, ref))
	}
	st.Record(desc, !known || used, fmt.Sprintf("distinct-terms>%d", min(nB*tB, nA*tA)/1000*1000))
}

func TestC14Vocab64k(t *testing.T) {
	st := NewStats("C14Vocab64k", c14VocabRule)
	defer st.Flush()
	c14Vocab(t, st, 240, 300, 150, 499)
}

func TestC14Vocab512k(t *testing.T) {
	st := NewStats("C14Vocab512k", c14VocabRule)
	defer st.Flush()
	c14Vocab(t, st, 1800, 299, 1100, 499)
}

// ---- process-level history: the same build in fresh processes whose FIRST builds differ ----

const c14ProcRule = "case = a target batch (one of 4 shapes) and chunk mode, built in 3..4 fresh child processes (the test binary re-executed) after different first builds: nothing, a document with a 1.5 MiB stored value, a >1024-document batch, " +
	"600 distinct terms, a tiny batch; oracle = every child reports the same SHA-256 of the target's bytes (state initialised once per process - encoder singletons, sync.Once - must not depend on what was built first); " +
	"non-trivial = >= 3 children with different first builds agree; distinct = target shape + mode + prefixes"

func c14ProcTarget(kind int) Batch {
	sc := &Scenario{Schema: map[string]int{"a": dvAlways}, Norm: normFns[0]}
	switch kind {
	case 0:
		b := make(Batch, 60)
		for i := range b {
			b[i].Fields = []Field{{Name: "a", Len: 2, DV: true, Terms: []Term{{T: fmt.Sprintf("t%d", i%7), Freq: 1}, {T: "common", Freq: 1, Locs: []Loc{{Pos: i, Start: 1, End: 2}}}}},
				{Name: "title", Store: true, Value: fmt.Sprintf("stored value of document %d %s", i, strings.Repeat("x", i))}}
		}
		return b
	case 1:
		return BlocksParams{N: 300, TermPer: 3, IDEvery: 1, ValPos: []int{5, 127, 0}, ValLen: []int{20, 3, 0}, StoreAll: 5}.Batch(sc)
	case 2:
		return Batch{{Fields: []Field{{Name: "a", Len: 1, Terms: []Term{{T: "x", Freq: 1}}}, {Name: "title", Store: true, Value: incompressible(2<<20, 7)}}}, {Fields: []Field{{Name: "title", Store: true, Value: strings.Repeat("compressible ", 200000)}}}}
	default:
		return WideParams{N: 1100, SparsePer: 40, FreqMod: 2, DenseLocs: 5}.Batch(sc)
	}
}

func c14ProcPrefix(kind string) Batch {
	sc := &Scenario{Schema: map[string]int{"a": dvAlways}, Norm: normFns[0]}
	switch kind {
	case "bigstored":
		return Batch{{Fields: []Field{{Name: "title", Store: true, Value: incompressible(3<<19, 3)}}}}
	case "wide":
		return WideParams{N: 2100, SparsePer: 1, FreqMod: 1}.Batch(sc)
	case "terms":
		b := Batch{{}}
		f := Field{Name: "a"}
		for i := 0; i < 600; i++ {
			f.Terms = append(f.Terms, Term{T: fmt.Sprintf("w%03d-suffix", i), Freq: 1})
			f.Len++
		}
		b[0].Fields = []Field{f}
		return b
	case "tiny":
		return Batch{{Fields: []Field{{Name: "a", Len: 1, Terms: []Term{{T: "x", Freq: 1}}}}}}
	}
	return nil
}

// TestC14Child is the body of a child process: it does nothing unless asked to.
func TestC14Child(t *testing.T) {
	spec := os.Getenv("VERIF_C14_CHILD")
	if spec == "" {
		t.Skip("only runs as a child of TestC14Process")
	}
	var prefix string
	var kind, mode int
	if _, err := fmt.Sscanf(spec, "%d %d %s", &kind, &mode, &prefix); err != nil {
		t.Fatalf("bad spec %q: %v", spec, err)
	}
	if pb := c14ProcPrefix(prefix); pb != nil {
		if _, err := buildBytes(pb, normFns[1], 1025); err != nil {
			t.Fatalf("prefix build: %v", err)
		}
	}
	bs, err := buildBytes(c14ProcTarget(kind), normFns[0], uint32(mode))
	if err != nil {
		t.Fatalf("target build: %v", err)
	}
	fmt.Printf("C14HASH:%x:%d\n", sha256.Sum256(bs), len(bs))
}

func c14ProcProp(st *CaseStats) func(t *rapid.T) {
	return func(t *rapid.T) {
		kind := rapid.IntRange(0, 3).Draw(t, "targetKind")
		mode := 1025
		if HooksOn {
			mode = int(rapid.SampledFrom([]uint32{1025, 1025, 2, 1024}).Draw(t, "mode"))
		}
		all := []string{"none", "bigstored", "wide", "terms", "tiny"}
		first := rapid.IntRange(0, 1).Draw(t, "firstPrefix")
		prefixes := []string{"none"}
		for i := 1; i < len(all); i++ {
			if i == 1 || (i+first)%2 == 0 || rapid.Bool().Draw(t, "prefix:"+all[i]) {
				prefixes = append(prefixes, all[i])
			}
		}
		desc := fmt.Sprintf("target %d mode %d first builds %v", kind, mode, prefixes)
		hashes := map[string]string{}
		for _, p := range prefixes {
			cmd := exec.Command(os.Args[0], "-test.run=^TestC14Child$", "-test.count=1")
			cmd.Env = append(os.Environ(), fmt.Sprintf("VERIF_C14_CHILD=%d %d %s", kind, mode, p), "VERIF_STATS_DIR=")
			out, err := cmd.CombinedOutput()
			m := regexp.MustCompile(`C14HASH:([0-9a-f]+:[0-9]+)`).FindSubmatch(out)
			if err != nil || m == nil {
				t.Fatalf("INFRA: child process for %s (first build %q) failed: %v\n%s", desc, p, err, out)
			}
			hashes[p] = string(m[1])
		}
		for _, p := range prefixes {
			if hashes[p] != hashes["none"] {
				t.Fatalf("%s:\n  built as the first build of a fresh process the target hashes to %s; in a fresh process whose first build was %q it hashes to %s", desc, hashes["none"], p, hashes[p])
			}
		}
		st.Record(desc, len(prefixes) >= 3, fmt.Sprintf("children=%d", len(prefixes)))
	}
}

func TestC14Process(t *testing.T) {
	st := NewStats("C14Process", c14ProcRule)
	defer st.Flush()
	rapid.Check(t, c14ProcProp(st))
}
