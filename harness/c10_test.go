package harness

import (
	"bytes"
	"fmt"
	"os"
	"path/filepath"
	"sort"
	"strings"
	"testing"

	"github.com/RoaringBitmap/roaring"
	segment "github.com/blugelabs/bluge_segment_api"
	"pgregory.net/rapid"

	"verif/harness/refice"
)

// C10 — on-disk format version 2 stays readable across code versions.
const c10Rule = "case = batch or merge (small / 128-document-block / >1024-document families, several chunk modes) written by BOTH the current code and the frozen reference copy of the pinned sources (harness/refice); " +
	"oracle on the same bytes, both directions: current writer -> reference reader observes what the current reader observes = the model; reference writer -> current reader observes what the reference reader observes " +
	"(and the model where the reference writer itself is correct), incl. feeding reference-written files to the current merger; plus a golden corpus of reference-written files with stored reference observations; " +
	"byte identity of the two writers is recorded, not required; excluded by construction (counted): facets where the reference itself is defective (dictionary counts after a 1-hit term, zero-survivor merge files, " +
	"stored visits of short last records, location field names of repeated terms); non-trivial = >=2 documents and (>=2 stored blocks or >=2 doc-value chunks or a multi-chunk posting list or 1-hit terms); " +
	"distinct = hash of the canonical case text"

func refBuild(b Batch, norm NormFn, mode uint32) (seg segment.Segment, err error) {
	err = safely("reference New", func() error {
		var e error
		seg, _, e = refice.RefNew(b.Docs(), norm.F, mode)
		return e
	})
	return seg, err
}

func refMergeBytes(segs []segment.Segment, drops []*roaring.Bitmap, mode uint32) (out []byte, err error) {
	err = safely("reference merge", func() error {
		var buf bytes.Buffer
		_, _, e := refice.RefMerge(segs, drops, &buf, mode, nil)
		out = buf.Bytes()
		return e
	})
	return out, err
}

func refLoad(b []byte) (seg segment.Segment, err error) {
	err = safely("reference Load", func() error {
		cp := make([]byte, len(b))
		copy(cp, b)
		var e error
		seg, e = refice.Load(segment.NewDataBytes(cp[:len(cp):len(cp)]))
		return e
	})
	return seg, err
}

// hasRepeatedTermOtherFieldLoc recognises the shape the reference WRITER gets
// wrong (fixed in the current code): within one document a term occurs again
// in the same field (same or repeated field instance) and the later occurrence
// carries a location naming another field.
func hasRepeatedTermOtherFieldLoc(b Batch) bool {
	for di := range b {
		seen := map[string]map[string]bool{}
		for fi := range b[di].Fields {
			f := &b[di].Fields[fi]
			if seen[f.Name] == nil {
				seen[f.Name] = map[string]bool{}
			}
			for ti := range f.Terms {
				tm := &f.Terms[ti]
				if seen[f.Name][tm.T] {
					for _, l := range tm.Locs {
						if l.Field != "" && l.Field != f.Name {
							return true
						}
					}
				}
				seen[f.Name][tm.T] = true
			}
		}
	}
	return false
}

// withoutDictCounts drops the dictionary-iterator counts (wrong in the
// reference reader after a 1-hit term) from an observation.
func withoutDictCounts(x *XSeg) *XSeg {
	c := *x
	c.DictCount = nil
	return &c
}

// adoptExcluded copies the expected stored values of excluded documents.
func adoptExcluded(obs, from *XSeg, excluded map[int]bool) {
	for d := range excluded {
		if d < len(obs.Stored) && d < len(from.Stored) {
			obs.Stored[d] = from.Stored[d]
		}
	}
}

func c10Prop(st *CaseStats, fam int) func(t *rapid.T) {
	return func(t *rapid.T) {
		sc := GenScenario(t)
		k := rapid.IntRange(1, 3).Draw(t, "nLeaves")
		if fam != FamSmall {
			k = rapid.IntRange(1, 2).Draw(t, "nLeavesBig")
		}
		if fam == FamBig {
			k = 1
		}
		isMerge := k > 1 || rapid.Bool().Draw(t, "mergeSingle")
		modes := ChunkModes
		if fam == FamWide {
			modes = []uint32{1025, 1025, 1024, 100, 7}
		}
		if fam == FamSparse {
			modes = SparseModes
		}
		batches := make([]Batch, k)
		lmodes := make([]uint32, k)
		drops := make([]*roaring.Bitmap, k)
		exps := make([]*XSeg, k)
		cur := make([]segment.Segment, k)
		ref := make([]segment.Segment, k)
		desc := sc.String()
		f1shape := false
		for i := range batches {
			var bd string
			switch fam {
			case FamBlocks:
				p := GenBlocks(t)
				batches[i], bd = p.Batch(sc), p.String()
			case FamWide:
				p := GenWide(t)
				batches[i], bd = p.Batch(sc), p.String()
			case FamSparse:
				p := GenSparse(t)
				batches[i], bd = p.Batch(sc), p.String()
			case FamManyFields:
				batches[i] = GenBatchManyFields(t, sc)
				bd = fmt.Sprintf("many-fields{%d fields in doc0, %d docs} %s", len(batches[i][0].Fields), len(batches[i]), batches[i][1:min(len(batches[i]), 7)].String())
			case FamCounts:
				p := GenCounts(t)
				batches[i], bd = p.Batch(sc), p.String()
			case FamDVGaps:
				p := GenDVGaps(t)
				batches[i], bd = p.Batch(sc), p.String()
			case FamBig:
				batches[i] = GenBatchBig(t, sc)
				bd = fmt.Sprintf("big{%d docs}", len(batches[i]))
			default:
				batches[i] = GenBatch(t, sc, 8)
				bd = batches[i].String()
			}
			lmodes[i] = rapid.SampledFrom(modes).Draw(t, "mode")
			exps[i] = Expect(batches[i], sc.Norm.F)
			var err error
			if cur[i], err = Build(batches[i], sc.Norm, lmodes[i]); err != nil {
				t.Fatalf("%s: %v", desc, err)
			}
			if ref[i], err = refBuild(batches[i], sc.Norm, lmodes[i]); err != nil {
				t.Fatalf("%s: reference writer: %v", desc, err)
			}
			if isMerge {
				drops[i] = GenDrops(t, len(batches[i]), fmt.Sprintf("l%d", i))
			}
			if hasRepeatedTermOtherFieldLoc(batches[i]) {
				f1shape = true
			}
			desc += fmt.Sprintf(" L%d=built(mode=%d){%s} drop=%s", i, lmodes[i], bd, bmString(drops[i]))
		}
		var exp *XSeg
		var curBytes, refBytes []byte
		outMode := lmodes[0]
		var err error
		var labels []string
		if isMerge {
			outMode = rapid.SampledFrom(modes).Draw(t, "outMode")
			desc += fmt.Sprintf(" merged(mode=%d)", outMode)
			exp, _ = MergeExpect(exps, drops)
			if curBytes, _, err = MergeBytes(cur, drops, outMode); err != nil {
				t.Fatalf("%s: current merger: %v", desc, err)
			}
			if exp.N == 0 {
				// the reference cannot load its own zero-survivor output (fixed defect): excluded
				labels = append(labels, "excluded:reference-zero-survivor-file")
			} else if refBytes, err = refMergeBytes(ref, drops, outMode); err != nil {
				if strings.Contains(err.Error(), "slice bounds out of range") {
					// the reference merger's own stored-field look-ahead defect (fixed in the current code): excluded
					labels = append(labels, "excluded:reference-merger-short-record-panic")
					refBytes = nil
				} else {
					t.Fatalf("%s: reference merger: %v", desc, err)
				}
			}
			labels = append(labels, "merged")
		} else {
			exp = exps[0]
			if curBytes, err = Persist(cur[0]); err != nil {
				t.Fatalf("%s: %v", desc, err)
			}
			if refBytes, err = Persist(ref[0]); err != nil {
				t.Fatalf("%s: reference writer: %v", desc, err)
			}
			labels = append(labels, "built")
		}
		// ---- direction 1: current writer -> reference reader ----
		rr, err := refLoad(curBytes)
		if err != nil {
			t.Fatalf("%s:\n  the reference reader cannot load the file written by the current code: %v", desc, err)
		}
		cr, err := LoadMem(curBytes)
		if err != nil {
			t.Fatalf("%s: current reader on its own file: %v", desc, err)
		}
		oc, err := Observe(cr, ProbeFields, AllFacets)
		if err != nil {
			t.Fatalf("%s: %v", desc, err)
		}
		or, excl, err := ObserveLenient(rr, ProbeFields, AllFacets)
		if err != nil {
			t.Fatalf("%s:\n  reference reader on the file written by the current code: %v", desc, err)
		}
		adoptExcluded(or, oc, excl)
		if d := DiffObs(withoutDictCounts(oc), withoutDictCounts(or), AllFacets); d != "" {
			t.Fatalf("%s:\n  file written by the current code: current reader vs reference reader: %s", desc, d)
		}
		if d := Diff(exp, oc, AllFacets); d != "" {
			t.Fatalf("%s:\n  file written by the current code vs model: %s", desc, d)
		}
		if len(excl) > 0 {
			labels = append(labels, "excluded:reference-stored-visit-short-record")
		}
		// ---- direction 2: reference writer -> current reader ----
		if refBytes != nil {
			cr2, err := LoadMem(refBytes)
			if err != nil {
				t.Fatalf("%s:\n  the current reader cannot load the file written by the reference writer: %v", desc, err)
			}
			rr2, err := refLoad(refBytes)
			if err != nil {
				t.Fatalf("%s: reference reader on its own file: %v", desc, err)
			}
			oc2, err := Observe(cr2, ProbeFields, AllFacets)
			if err != nil {
				t.Fatalf("%s:\n  current reader on the file written by the reference writer: %v", desc, err)
			}
			or2, excl2, err := ObserveLenient(rr2, ProbeFields, AllFacets)
			if err != nil {
				t.Fatalf("%s: reference reader on its own file: %v", desc, err)
			}
			adoptExcluded(or2, oc2, excl2)
			if d := DiffObs(withoutDictCounts(or2), withoutDictCounts(oc2), AllFacets); d != "" {
				t.Fatalf("%s:\n  file written by the reference writer: reference reader vs current reader: %s", desc, d)
			}
			if !f1shape {
				if d := Diff(exp, oc2, NoStats); d != "" {
					t.Fatalf("%s:\n  file written by the reference writer, read by the current code, vs model: %s", desc, d)
				}
			} else {
				labels = append(labels, "excluded:reference-writer-loc-field-of-repeated-term(model-comparison)")
			}
			if bytes.Equal(curBytes, refBytes) {
				labels = append(labels, "writers-byte-identical")
			} else {
				labels = append(labels, "writers-differ-bytewise")
			}
			// reference-written files as inputs of the current merger
			if !isMerge && !f1shape && rapid.Bool().Draw(t, "mergeRefWritten") {
				d := GenDrops(t, exp.N, "rw")
				mb, _, err := MergeBytes([]segment.Segment{cr2}, []*roaring.Bitmap{d}, rapid.SampledFrom(modes).Draw(t, "rwMode"))
				if err != nil {
					t.Fatalf("%s:\n  current merger over a reference-written file: %v", desc, err)
				}
				ms, err := LoadMem(mb)
				if err != nil {
					t.Fatalf("%s: %v", desc, err)
				}
				mexp, _ := MergeExpect([]*XSeg{exp}, []*roaring.Bitmap{d})
				om, err := Observe(ms, ProbeFields, NoStats)
				if err != nil {
					t.Fatalf("%s: %v", desc, err)
				}
				if df := Diff(mexp, om, NoStats); df != "" {
					t.Fatalf("%s:\n  current merger over a reference-written file (drop=%s) vs model: %s", desc, bmString(d), df)
				}
				labels = append(labels, "current-merge-of-reference-file")
			}
		}
		// classification
		multiChunk := maxChunks(exp, outMode) >= 2
		oneHit := false
		if isMerge {
			for _, terms := range exp.Post {
				for _, pl := range terms {
					if len(pl) == 1 && pl[0].Freq == 1 && len(pl[0].Locs) == 0 {
						oneHit = true
					}
				}
			}
		}
		if multiChunk {
			labels = append(labels, "multi-chunk-list")
		}
		if oneHit {
			labels = append(labels, "1-hit-terms")
		}
		if exp.N > 128 {
			labels = append(labels, ">=2-stored-blocks")
		}
		if exp.N > 1024 && len(exp.DV) > 0 {
			labels = append(labels, ">=2-docvalue-chunks")
		}
		nt := exp.N >= 2 && (exp.N > 128 || multiChunk || oneHit)
		st.Record(desc, nt, labels...)
	}
}

func TestC10Small(t *testing.T) {
	st := NewStats("C10Small", c10Rule)
	defer st.Flush()
	rapid.Check(t, c10Prop(st, FamSmall))
}

func TestC10Blocks(t *testing.T) {
	st := NewStats("C10Blocks", c10Rule)
	defer st.Flush()
	rapid.Check(t, c10Prop(st, FamBlocks))
}

func TestC10Wide(t *testing.T) {
	st := NewStats("C10Wide", c10Rule)
	defer st.Flush()
	rapid.Check(t, c10Prop(st, FamWide))
}

// ---- golden corpus ----

// Canon renders an observation deterministically (norms as bit patterns).
func Canon(x *XSeg, withDictCounts bool) string {
	var sb strings.Builder
	fmt.Fprintf(&sb, "N=%d\nFields=%q\n", x.N, x.Fields)
	var fs []string
	for f := range x.Post {
		fs = append(fs, f)
	}
	sort.Strings(fs)
	for _, f := range fs {
		for _, tm := range sortedKeys(x.Post[f]) {
			fmt.Fprintf(&sb, "P %q %q plcount=%d", f, tm, x.PLCount[f][tm])
			if withDictCounts {
				fmt.Fprintf(&sb, " dictcount=%d", x.DictCount[f][tm])
			}
			for _, p := range x.Post[f][tm] {
				fmt.Fprintf(&sb, " [%d f=%d n=%08x", p.Doc, p.Freq, mathFloat32bits(p.Norm))
				for _, l := range p.Locs {
					fmt.Fprintf(&sb, " @%q:%d:%d:%d", l.Field, l.Pos, l.Start, l.End)
				}
				sb.WriteString("]")
			}
			sb.WriteString("\n")
		}
	}
	for d, s := range x.Stored {
		if len(s) > 0 {
			fmt.Fprintf(&sb, "S %d", d)
			for _, kv := range s {
				if len(kv.Value) > 200 { // large values: length and hash
					fmt.Fprintf(&sb, " {%q len=%d fnv=%x}", kv.Field, len(kv.Value), hash64(kv.Value))
				} else {
					fmt.Fprintf(&sb, " {%q %q}", kv.Field, kv.Value)
				}
			}
			sb.WriteString("\n")
		}
	}
	fs = fs[:0]
	for f := range x.DV {
		fs = append(fs, f)
	}
	sort.Strings(fs)
	for _, f := range fs {
		for d, ts := range x.DV[f] {
			if len(ts) > 0 {
				fmt.Fprintf(&sb, "V %q %d %q\n", f, d, ts)
			}
		}
	}
	// statistics of the segment's own fields only (independent of the probe list)
	for _, f := range x.Fields {
		fmt.Fprintf(&sb, "T %q %+v\n", f, x.Stats[f])
	}
	return sb.String()
}

type goldenSpec struct {
	name   string
	leaves []Batch
	modes  []uint32
	drops  []*roaring.Bitmap // nil slice: persist leaf 0 directly
	out    uint32
}

func goldenSpecs() []goldenSpec {
	sc := &Scenario{Schema: map[string]int{"_id": dvNever, "a": dvAlways, "b": dvNever, "title": dvAlways, "zz": dvAlways}, Norm: normFns[0]}
	small := Batch{
		{Fields: []Field{{Name: "_id", Len: 1, Terms: []Term{{T: "id0", Freq: 1}}, Store: true, Value: "id0"},
			{Name: "title", Len: 4, DV: true, Store: true, Value: "hello world", Terms: []Term{{T: "hello", Freq: 2, Locs: []Loc{{Pos: 1, Start: 0, End: 5}, {Pos: 3, Start: 12, End: 17}}}, {T: "world", Freq: 2, Locs: []Loc{{Pos: 2, Start: 6, End: 11}}}}},
			{Name: "b", Len: 3, Terms: []Term{{T: "", Freq: 1}, {T: "\x00", Freq: 1}, {T: "k\xffz", Freq: 1, Locs: []Loc{{Field: "title", Pos: 16384, Start: 1 << 21, End: 1<<31 - 1}}}}}}},
		{Fields: []Field{{Name: "_id", Len: 1, Terms: []Term{{T: "id1", Freq: 1}}},
			{Name: "title", Len: 1, DV: true, Terms: []Term{{T: "hello", Freq: 1}}},
			{Name: "title", Len: 2, DV: true, Store: true, Value: "", Terms: []Term{{T: "again", Freq: 2}}}}},
		{},
		{Fields: []Field{{Name: "a", Len: 71, DV: true, Terms: []Term{{T: longTerm, Freq: 70}, {T: "x\xfe", Freq: 1}}, Store: true, Value: "\x00\xff\x00"}}},
		{Fields: []Field{{Name: "title", Len: 1, DV: true, Terms: []Term{{T: "world", Freq: 1}}}, {Name: "zz", Len: 0, DV: true}}},
	}
	bl := BlocksParams{N: 300, TermPer: 3, IDEvery: 1, ValPos: []int{3, 77, 9}, ValLen: []int{0, 12, 24}, TwoVals: true, StoreAll: 5, LastShort: true}
	wd := WideParams{N: 2100, DenseSkip: 7, DenseOff: 3, DenseLocs: 5, SparsePer: 40, NoFieldPer: 9, SecondDV: true, FreqMod: 3}
	wd2 := WideParams{N: 1025, DenseSkip: 0, DenseLocs: 0, SparsePer: 700, NoFieldPer: 0, FreqMod: 1}
	wdExact := WideParams{N: 2500, DenseExact: 2048, DenseLocs: 5, SparsePer: 40, NoFieldPer: 9, FreqMod: 2}
	wdExact1 := WideParams{N: 1024, DenseExact: 1024, SparsePer: 1, FreqMod: 1}
	// 140 field names: two-byte varint field ids in locations and stored meta data
	var many Batch
	{
		var d0, d1, d2 Doc
		for i := 0; i < 140; i++ {
			n := fmt.Sprintf("f%03d", i)
			d0.Fields = append(d0.Fields, Field{Name: n, Len: 1, DV: i%2 == 0, Store: i%37 == 0, Value: n, Terms: []Term{{T: fmt.Sprintf("t%d", i%5), Freq: 1}}})
		}
		d1.Fields = []Field{{Name: "f139", Len: 3, Store: true, Value: "v139", Terms: []Term{{T: "x", Freq: 3, Locs: []Loc{{Field: "f130", Pos: 1, Start: 0, End: 1}, {Field: "", Pos: 128, Start: 2, End: 3}, {Field: "f005", Pos: 16384, Start: 4, End: 5}}}}}}
		d2.Fields = []Field{{Name: "f128", Len: 1, DV: true, Terms: []Term{{T: "", Freq: 1}}}, {Name: "f139", Len: 1, Terms: []Term{{T: "x", Freq: 1}}}}
		many = Batch{d0, d1, d2}
	}
	bigStored := Batch{{Fields: []Field{{Name: "title", Len: 1, Store: true, Value: strings.Repeat("one and a half mebibytes of stored text. ", 39000), Terms: []Term{{T: "big", Freq: 1}}}}}, {}}
	dropSome := roaring.BitmapOf(1, 3)
	wdDrop := roaring.New()
	for i := 0; i < 2100; i += 3 {
		wdDrop.Add(uint32(i))
	}
	return []goldenSpec{
		{name: "small-built-adaptive", leaves: []Batch{small}, modes: []uint32{1025}},
		{name: "small-built-chunk2", leaves: []Batch{small}, modes: []uint32{2}},
		{name: "small-merged-1hit", leaves: []Batch{small, small}, modes: []uint32{1025, 3}, drops: []*roaring.Bitmap{dropSome, nil}, out: 1025},
		{name: "small-merged-chunk1", leaves: []Batch{small, small[:2]}, modes: []uint32{1, 1024}, drops: []*roaring.Bitmap{nil, roaring.BitmapOf(0)}, out: 1},
		{name: "empty-built", leaves: []Batch{nil}, modes: []uint32{1025}},
		{name: "blocks-built", leaves: []Batch{bl.Batch(sc)}, modes: []uint32{1025}},
		{name: "blocks-merged-copy", leaves: []Batch{bl.Batch(sc), bl.Batch(sc)}, modes: []uint32{1025, 1025}, drops: []*roaring.Bitmap{nil, nil}, out: 1025},
		{name: "blocks-merged-reencode", leaves: []Batch{bl.Batch(sc), small}, modes: []uint32{5, 1025}, drops: []*roaring.Bitmap{roaring.BitmapOf(0, 127, 128, 299), nil}, out: 7},
		{name: "wide-built-adaptive", leaves: []Batch{wd.Batch(sc)}, modes: []uint32{1025}},
		{name: "wide-built-legacy1024", leaves: []Batch{wd2.Batch(sc)}, modes: []uint32{1024}},
		{name: "wide-built-exact2048-adaptive", leaves: []Batch{wdExact.Batch(sc)}, modes: []uint32{1025}},
		{name: "wide-merged-exact1024-adaptive", leaves: []Batch{wdExact1.Batch(sc), small}, modes: []uint32{1025, 1025}, drops: []*roaring.Bitmap{nil, roaring.BitmapOf(0, 1, 2, 3, 4)}, out: 1025},
		{name: "bigstored-built", leaves: []Batch{bigStored}, modes: []uint32{1025}},
		{name: "manyfields-built", leaves: []Batch{many}, modes: []uint32{1025}},
		{name: "manyfields-merged", leaves: []Batch{many, small}, modes: []uint32{2, 1025}, drops: []*roaring.Bitmap{roaring.BitmapOf(0), nil}, out: 3},
		{name: "wide-merged-adaptive", leaves: []Batch{wd.Batch(sc), wd2.Batch(sc)}, modes: []uint32{1025, 1025}, drops: []*roaring.Bitmap{wdDrop, nil}, out: 1025},
	}
}

func goldenDir() string {
	if d := os.Getenv("VERIF_GOLDEN_DIR"); d != "" {
		return d
	}
	return "/verif/harness/golden"
}

// TestC10WriteGolden (re)creates the corpus with the REFERENCE writer and the
// reference reader's observations. Only run by hand with VERIF_WRITE_GOLDEN=1.
func TestC10WriteGolden(t *testing.T) {
	if os.Getenv("VERIF_WRITE_GOLDEN") != "1" {
		t.Skip("set VERIF_WRITE_GOLDEN=1 to rewrite the golden corpus")
	}
	_ = os.MkdirAll(goldenDir(), 0o755)
	for _, g := range goldenSpecs() {
		segs := make([]segment.Segment, len(g.leaves))
		for i := range g.leaves {
			s, err := refBuild(g.leaves[i], normFns[0], g.modes[i])
			if err != nil {
				t.Fatal(err)
			}
			segs[i] = s
		}
		var bs []byte
		var err error
		if g.drops == nil {
			bs, err = Persist(segs[0])
		} else {
			bs, err = refMergeBytes(segs, g.drops, g.out)
		}
		if err != nil {
			t.Fatal(err)
		}
		rs, err := refLoad(bs)
		if err != nil {
			t.Fatal(err)
		}
		obs, excl, err := ObserveLenient(rs, ProbeFields, AllFacets)
		if err != nil {
			t.Fatal(err)
		}
		if len(excl) > 0 {
			t.Fatalf("%s: reference reader cannot visit documents %v of its own file; pick another shape", g.name, excl)
		}
		if err := os.WriteFile(filepath.Join(goldenDir(), g.name+".ice"), bs, 0o644); err != nil {
			t.Fatal(err)
		}
		if err := os.WriteFile(filepath.Join(goldenDir(), g.name+".obs"), []byte(Canon(obs, false)), 0o644); err != nil {
			t.Fatal(err)
		}
	}
}

func TestC10Golden(t *testing.T) {
	st := NewStats("C10Golden", "golden corpus: every reference-written file is loaded memory- and file-backed by the current code and its canonical observation must equal the stored reference observation; each file counts as one non-trivial case")
	defer st.Flush()
	ctx := &Ctx{}
	defer ctx.Close()
	files, _ := filepath.Glob(filepath.Join(goldenDir(), "*.ice"))
	if len(files) < 8 {
		t.Fatalf("INFRA: golden corpus missing (%d files in %s)", len(files), goldenDir())
	}
	for _, f := range files {
		bs, err := os.ReadFile(f)
		if err != nil {
			t.Fatalf("INFRA: %v", err)
		}
		want, err := os.ReadFile(strings.TrimSuffix(f, ".ice") + ".obs")
		if err != nil {
			t.Fatalf("INFRA: %v", err)
		}
		m, err := LoadMem(bs)
		if err != nil {
			t.Fatalf("golden %s: current reader cannot load the reference-written file: %v", filepath.Base(f), err)
		}
		fl, err := ctx.LoadFile(bs)
		if err != nil {
			t.Fatalf("golden %s: %v", filepath.Base(f), err)
		}
		for _, s := range []segment.Segment{m, fl} {
			obs, err := Observe(s, ProbeFields, AllFacets)
			if err != nil {
				t.Fatalf("golden %s: %v", filepath.Base(f), err)
			}
			got := Canon(obs, false)
			if got != string(want) {
				t.Fatalf("golden %s: the current reader's observation differs from the stored reference observation:\n%s", filepath.Base(f), firstLineDiff(string(want), got))
			}
		}
		st.Record("golden:"+filepath.Base(f), true, "golden-file")
	}
}

func firstLineDiff(a, b string) string {
	la, lb := strings.Split(a, "\n"), strings.Split(b, "\n")
	for i := 0; i < len(la) && i < len(lb); i++ {
		if la[i] != lb[i] {
			x, y := la[i], lb[i]
			if len(x) > 600 {
				x = x[:600] + "..."
			}
			if len(y) > 600 {
				y = y[:600] + "..."
			}
			return fmt.Sprintf("line %d:\n  reference: %s\n  current:   %s", i+1, x, y)
		}
	}
	return fmt.Sprintf("line counts differ: %d vs %d", len(la), len(lb))
}

func TestC10Big(t *testing.T) {
	st := NewStats("C10Big", c10Rule)
	defer st.Flush()
	rapid.Check(t, c10Prop(st, FamBig))
}

func TestC10Sparse(t *testing.T) {
	st := NewStats("C10Sparse", c10Rule)
	defer st.Flush()
	rapid.Check(t, c10Prop(st, FamSparse))
}

func TestC10ManyFields(t *testing.T) {
	st := NewStats("C10ManyFields", c10Rule)
	defer st.Flush()
	rapid.Check(t, c10Prop(st, FamManyFields))
}

func TestC10Counts(t *testing.T) {
	st := NewStats("C10Counts", c10Rule)
	defer st.Flush()
	rapid.Check(t, c10Prop(st, FamCounts))
}

func TestC10Gaps(t *testing.T) {
	st := NewStats("C10Gaps", c10Rule)
	defer st.Flush()
	rapid.Check(t, c10Prop(st, FamDVGaps))
}
