package harness

import (
	"fmt"
	"testing"

	segment "github.com/blugelabs/bluge_segment_api"
	"pgregory.net/rapid"
)

// C02 — a merge is indistinguishable from rebuilding the surviving documents.
const c02Rule = "case = tree of merges (1..3 inputs per merge, inputs built or previously merged, own field subsets and chunk modes, " +
	"drops nil/empty/partial/everything, drawn output chunk mode); oracle = reference model of the survivors and, when the survivors " +
	"satisfy the builder's input contract by themselves, a literal rebuild with New; non-trivial = (>=2 inputs or a previously merged input) " +
	"and >=1 dropped and >=1 surviving document; distinct = hash of the canonical case text"

// probeAbsent checks that a term is unreachable through Contains and
// PostingsList.
func probeAbsent(seg segment.Segment, field, term string) error {
	return safely("probeAbsent", func() error {
		d, err := seg.Dictionary(field)
		if err != nil {
			return err
		}
		ok, err := d.Contains([]byte(term))
		if err != nil {
			return err
		}
		if ok {
			return fmt.Errorf("Contains(%q/%q) = true for a term without live documents", field, term)
		}
		pl, err := d.PostingsList([]byte(term), nil, nil)
		if err != nil {
			return err
		}
		if pl.Count() != 0 {
			return fmt.Errorf("PostingsList(%q/%q).Count() = %d for a term without live documents", field, term, pl.Count())
		}
		ps, err := WalkPostings(pl, true, true, true)
		if err != nil {
			return err
		}
		if len(ps) != 0 {
			return fmt.Errorf("PostingsList(%q/%q) yields %v for a term without live documents", field, term, ps)
		}
		return nil
	})
}

func schemaHasMixed(sc *Scenario) bool {
	for _, m := range sc.Schema {
		if m == dvMixed {
			return true
		}
	}
	return false
}

// rebuildDiff compares the merged observation with a literal rebuild of the
// survivors over the union field list.
func rebuildDiff(sc *Scenario, c *SegCase, obs *XSeg, fam int) (string, error) {
	re, err := Build(c.Docs, sc.Norm, c.Mode)
	if err != nil {
		return "", fmt.Errorf("rebuilding survivors: %v", err)
	}
	fc := Facets{Postings: true, Counts: true, Stored: true, DV: fam != FamSmall || !schemaHasMixed(sc)}
	r, err := Observe(re, ProbeFields, fc)
	if err != nil {
		return "", fmt.Errorf("observing rebuilt survivors: %v", err)
	}
	// the merged field list is the union of the inputs' lists: it contains
	// the rebuilt list; extra fields must be empty
	in := map[string]bool{}
	for _, f := range obs.Fields {
		in[f] = true
	}
	for _, f := range r.Fields {
		if !in[f] {
			return fmt.Sprintf("field %q of the rebuilt survivors missing from merged field list %q", f, obs.Fields), nil
		}
	}
	r.Fields = obs.Fields
	return Diff(r, obs, fc), nil
}

func c02Prop(st *CaseStats, fam int) func(t *rapid.T) {
	return func(t *rapid.T) {
		ctx := &Ctx{}
		defer ctx.Close()
		sc := GenScenario(t)
		cfg := CaseCfg{Family: fam, MaxDocs: 6, MaxIn: 3, HoldAny: true}
		depth := 1
		if fam == FamHuge {
			cfg.MaxIn = 2
			depth = 1
		} else if fam == FamSmall || fam == FamMid || fam == FamManyFields {
			depth = rapid.SampledFrom([]int{1, 1, 2, 3}).Draw(t, "depth")
		} else {
			cfg.MaxIn = 2
			depth = rapid.SampledFrom([]int{1, 1, 2}).Draw(t, "depth")
		}
		c, err := GenMerge(t, ctx, sc, cfg, depth, "m")
		if err != nil {
			t.Fatalf("%s: %v", sc, err)
		}
		obs, err := Observe(c.Seg, ProbeFields, NoStats)
		if err != nil {
			t.Fatalf("case %s %s: %v", sc, c.Desc, err)
		}
		if d := Diff(c.Exp, obs, NoStats); d != "" {
			t.Fatalf("case %s %s:\n  merged vs model: %s", sc, c.Desc, d)
		}
		// terms whose documents were all deleted are unreachable
		for _, f := range ProbeFields {
			for _, tm := range TermVocab {
				if len(c.Exp.Post[f][tm]) == 0 {
					if err := probeAbsent(c.Seg, f, tm); err != nil {
						t.Fatalf("case %s %s: %v", sc, c.Desc, err)
					}
				}
			}
		}
		labels := c.LabelList()
		if contractValid(c.Docs) {
			d, err := rebuildDiff(sc, c, obs, fam)
			if err != nil {
				t.Fatalf("case %s %s: %v", sc, c.Desc, err)
			}
			if d != "" {
				t.Fatalf("case %s %s:\n  merged vs rebuilt survivors: %s", sc, c.Desc, d)
			}
			labels = append(labels, "literal-rebuild-compared")
		} else {
			labels = append(labels, "survivors-not-contract-valid(model-only)")
		}
		nt := (c.Labels["multi-input"] || c.Labels["merged-input"]) && c.Labels["drop+survivor"]
		st.Record(sc.String()+" "+c.Desc, nt, labels...)
	}
}

func TestC02Small(t *testing.T) {
	st := NewStats("C02Small", c02Rule)
	defer st.Flush()
	rapid.Check(t, c02Prop(st, FamSmall))
}

func TestC02Blocks(t *testing.T) {
	st := NewStats("C02Blocks", c02Rule)
	defer st.Flush()
	rapid.Check(t, c02Prop(st, FamBlocks))
}

func TestC02Wide(t *testing.T) {
	st := NewStats("C02Wide", c02Rule)
	defer st.Flush()
	rapid.Check(t, c02Prop(st, FamWide))
}

func TestC02Mid(t *testing.T) {
	st := NewStats("C02Mid", c02Rule)
	defer st.Flush()
	rapid.Check(t, c02Prop(st, FamMid))
}

func TestC02ManyFields(t *testing.T) {
	st := NewStats("C02ManyFields", c02Rule)
	defer st.Flush()
	rapid.Check(t, c02Prop(st, FamManyFields))
}

func TestC02Huge(t *testing.T) {
	st := NewStats("C02Huge", c02Rule)
	defer st.Flush()
	rapid.Check(t, c02Prop(st, FamHuge))
}
