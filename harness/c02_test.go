package harness

import (
	"fmt"
	"testing"

	"github.com/RoaringBitmap/roaring"
	segment "github.com/blugelabs/bluge_segment_api"
	"pgregory.net/rapid"
)

// C02 — a merge is indistinguishable from rebuilding the surviving documents.
const c02Rule = "case = tree of merges (1..3 inputs per merge, inputs built or previously merged, own field subsets and chunk modes, " +
	"drops nil/empty/partial/everything, drawn output chunk mode); oracle = reference model of the survivors and, when the survivors " +
	"satisfy the builder's input contract by themselves, a literal rebuild with New; non-trivial = (>=2 inputs or a previously merged input) " +
	"and >=1 dropped and >=1 surviving document; distinct = hash of the canonical case text"

// probeAbsent checks that a term is unreachable through Contains and
// PostingsList.
func probeAbsent(seg segment.Segment, field, term string) error {
	return safely("probeAbsent", func() error {
		d, err := seg.Dictionary(field)
		if err != nil {
			return err
		}
		ok, err := d.Contains([]byte(term))
		if err != nil {
			return err
		}
		if ok {
			return fmt.Errorf("Contains(%q/%q) = true for a term without live documents", field, term)
		}
		pl, err := d.PostingsList([]byte(term), nil, nil)
		if err != nil {
			return err
		}
		if pl.Count() != 0 {
			return fmt.Errorf("PostingsList(%q/%q).Count() = %d for a term without live documents", field, term, pl.Count())
		}
		ps, err := WalkPostings(pl, true, true, true)
		if err != nil {
			return err
		}
		if len(ps) != 0 {
			return fmt.Errorf("PostingsList(%q/%q) yields %v for a term without live documents", field, term, ps)
		}
		return nil
	})
}

func schemaHasMixed(sc *Scenario) bool {
	for _, m := range sc.Schema {
		if m == dvMixed {
			return true
		}
	}
	return false
}

// rebuildDiff compares the merged observation with a literal rebuild of the
// survivors over the union field list.
func rebuildDiff(sc *Scenario, c *SegCase, obs *XSeg, fam int) (string, error) {
	re, err := Build(c.Docs, sc.Norm, c.Mode)
	if err != nil {
		return "", fmt.Errorf("rebuilding survivors: %v", err)
	}
	fc := Facets{Postings: true, Counts: true, Stored: true, DV: fam != FamSmall || !schemaHasMixed(sc)}
	r, err := Observe(re, ProbeFields, fc)
	if err != nil {
		return "", fmt.Errorf("observing rebuilt survivors: %v", err)
	}
	// the merged field list is the union of the inputs' lists: it contains
	// the rebuilt list; extra fields must be empty
	in := map[string]bool{}
	for _, f := range obs.Fields {
		in[f] = true
	}
	for _, f := range r.Fields {
		if !in[f] {
			return fmt.Sprintf("field %q of the rebuilt survivors missing from merged field list %q", f, obs.Fields), nil
		}
	}
	r.Fields = obs.Fields
	return Diff(r, obs, fc), nil
}

func c02Prop(st *CaseStats, fam int) func(t *rapid.T) {
	return func(t *rapid.T) {
		ctx := &Ctx{}
		defer ctx.Close()
		sc := GenScenario(t)
		cfg := CaseCfg{Family: fam, MaxDocs: 6, MaxIn: 3, HoldAny: true}
		depth := 1
		if fam == FamHuge {
			cfg.MaxIn = 2
			depth = 1
		} else if fam == FamSmall || fam == FamMid || fam == FamManyFields {
			depth = rapid.SampledFrom([]int{1, 1, 2, 3}).Draw(t, "depth")
		} else {
			cfg.MaxIn = 2
			depth = rapid.SampledFrom([]int{1, 1, 2}).Draw(t, "depth")
		}
		c, err := GenMerge(t, ctx, sc, cfg, depth, "m")
		if err != nil {
			t.Fatalf("%s: %v", sc, err)
		}
		obs, err := Observe(c.Seg, ProbeFields, NoStats)
		if err != nil {
			t.Fatalf("case %s %s: %v", sc, c.Desc, err)
		}
		if d := Diff(c.Exp, obs, NoStats); d != "" {
			t.Fatalf("case %s %s:\n  merged vs model: %s", sc, c.Desc, d)
		}
		// terms whose documents were all deleted are unreachable
		for _, f := range ProbeFields {
			for _, tm := range TermVocab {
				if len(c.Exp.Post[f][tm]) == 0 {
					if err := probeAbsent(c.Seg, f, tm); err != nil {
						t.Fatalf("case %s %s: %v", sc, c.Desc, err)
					}
				}
			}
		}
		labels := c.LabelList()
		if contractValid(c.Docs) {
			d, err := rebuildDiff(sc, c, obs, fam)
			if err != nil {
				t.Fatalf("case %s %s: %v", sc, c.Desc, err)
			}
			if d != "" {
				t.Fatalf("case %s %s:\n  merged vs rebuilt survivors: %s", sc, c.Desc, d)
			}
			labels = append(labels, "literal-rebuild-compared")
		} else {
			labels = append(labels, "survivors-not-contract-valid(model-only)")
		}
		nt := (c.Labels["multi-input"] || c.Labels["merged-input"]) && c.Labels["drop+survivor"]
		st.Record(sc.String()+" "+c.Desc, nt, labels...)
	}
}

func TestC02Small(t *testing.T) {
	st := NewStats("C02Small", c02Rule)
	defer st.Flush()
	rapid.Check(t, c02Prop(st, FamSmall))
}

func TestC02Blocks(t *testing.T) {
	st := NewStats("C02Blocks", c02Rule)
	defer st.Flush()
	rapid.Check(t, c02Prop(st, FamBlocks))
}

func TestC02Wide(t *testing.T) {
	st := NewStats("C02Wide", c02Rule)
	defer st.Flush()
	rapid.Check(t, c02Prop(st, FamWide))
}

func TestC02Mid(t *testing.T) {
	st := NewStats("C02Mid", c02Rule)
	defer st.Flush()
	rapid.Check(t, c02Prop(st, FamMid))
}

func TestC02ManyFields(t *testing.T) {
	st := NewStats("C02ManyFields", c02Rule)
	defer st.Flush()
	rapid.Check(t, c02Prop(st, FamManyFields))
}

func TestC02Huge(t *testing.T) {
	st := NewStats("C02Huge", c02Rule)
	defer st.Flush()
	rapid.Check(t, c02Prop(st, FamHuge))
}

// ---- merges whose surviving cardinality of one term sits on a multiple of 1024 ----

const c02BoundaryRule = "case = merge of a small input holding the term in one document (pre-merged alone, so the term is 1-hit encoded there, or left built) and a >1000-document input, with the number of SURVIVING postings of that term " +
	"drawn from {1023,1024,1025,2047,2048,2049} after deleting the small input's posting and/or 0..2 postings of the large input; adaptive and fixed output chunk modes, both input orders; " +
	"oracle = reference model + literal rebuild of the survivors; non-trivial = the small input's 1-hit posting is deleted or survives with the surviving cardinality within 1 of a multiple of 1024; distinct = hash of the case text"

func c02BoundaryProp(st *CaseStats, assoc bool) func(t *rapid.T) {
	return func(t *rapid.T) {
		ctx := &Ctx{}
		defer ctx.Close()
		sc := GenScenario(t)
		nA := rapid.IntRange(1, 4).Draw(t, "nA")
		// the term in EVERY surviving document: the merged segment then has exactly `target` documents
		everySurvivor := rapid.IntRange(0, 2).Draw(t, "termInEverySurvivor") == 0
		if everySurvivor {
			nA = 1
		}
		hitA := rapid.IntRange(0, nA-1).Draw(t, "hitA")
		hitLocs := rapid.IntRange(0, 3).Draw(t, "hitWithLocs") == 0
		a := make(Batch, nA)
		for i := range a {
			f := Field{Name: "a", Len: 1, Terms: []Term{{T: fmt.Sprintf("o%d", i), Freq: 1}}}
			if i == hitA {
				tm := Term{T: "dense", Freq: 1}
				if hitLocs {
					tm.Locs = []Loc{{Pos: 1, Start: 2, End: 3}}
				}
				f.Terms = append(f.Terms, tm)
				f.Len++
			}
			a[i].Fields = []Field{f}
		}
		target := rapid.SampledFrom([]int{1023, 1024, 1025, 2047, 2048, 2049}).Draw(t, "survivingCardinality")
		dropHitA := rapid.Bool().Draw(t, "dropHitA")
		dB := rapid.IntRange(0, 2).Draw(t, "droppedInB")
		T := target + dB
		if !dropHitA {
			T--
		}
		nB := T + rapid.IntRange(0, 30).Draw(t, "tailB")
		if everySurvivor {
			nB = T
		}
		locEvery := rapid.SampledFrom([]int{0, 1, 5}).Draw(t, "locEvery")
		b := make(Batch, nB)
		for i := range b {
			f := Field{Name: "a"}
			if i < T {
				tm := Term{T: "dense", Freq: 1 + i%3}
				if locEvery > 0 && i%locEvery == 0 {
					tm.Locs = []Loc{{Pos: i, Start: i, End: i + 2}}
				}
				f.Terms = append(f.Terms, tm)
				f.Len += tm.Freq
			}
			if i%7 == 0 {
				f.Terms = append(f.Terms, Term{T: fmt.Sprintf("s%d", i%3), Freq: 1})
				f.Len++
			}
			if len(f.Terms) > 0 {
				b[i].Fields = []Field{f}
			}
		}
		mk := func(batch Batch, mode uint32, what string) *SegCase {
			seg, err := Build(batch, sc.Norm, mode)
			if err != nil {
				t.Fatalf("%s: building %s: %v", sc, what, err)
			}
			return &SegCase{Seg: seg, Exp: Expect(batch, sc.Norm.F), Docs: batch, Mode: mode, Desc: what}
		}
		modes := []uint32{1025, 1025, 1025, 1024, 100}
		pick := func(label string) uint32 {
			if !HooksOn {
				return 1025
			}
			return rapid.SampledFrom(modes).Draw(t, label)
		}
		ca := mk(a, pick("modeA"), fmt.Sprintf("A{%d docs, \"dense\" in doc %d, locs=%v}", nA, hitA, hitLocs))
		preMerged := rapid.IntRange(0, 3).Draw(t, "preMergeA") > 0 || assoc
		caBuilt := ca
		if preMerged {
			var err error
			ca, _, err = MergeCases(ctx, []*SegCase{ca}, []*roaring.Bitmap{nil}, pick("modeAMerged"), holdMem)
			if err != nil {
				t.Fatalf("%s: pre-merging A: %v", sc, err)
			}
		}
		cb := mk(b, pick("modeB"), fmt.Sprintf("B{%d docs, \"dense\" in the first %d, locEvery=%d}", nB, T, locEvery))
		dropA, dropB := roaring.New(), roaring.New()
		if dropHitA {
			dropA.Add(uint32(hitA))
		}
		for k := 0; k < dB; k++ {
			dropB.Add(uint32(rapid.IntRange(0, T-1).Draw(t, "dropInB")))
		}
		for uint64(dB) > dropB.GetCardinality() { // drawn twice: take the next free one
			for d := uint32(0); ; d++ {
				if !dropB.Contains(d) {
					dropB.Add(d)
					break
				}
			}
		}
		ins, drops := []*SegCase{ca, cb}, []*roaring.Bitmap{dropA, dropB}
		if rapid.Bool().Draw(t, "bFirst") {
			ins, drops = []*SegCase{cb, ca}, []*roaring.Bitmap{dropB, dropA}
		}
		c, _, err := MergeCases(ctx, ins, drops, pick("outMode"), holdMem)
		if err != nil {
			t.Fatalf("%s: %v", sc, err)
		}
		mergeLabels(c, ins, drops)
		if got := len(c.Exp.Post["a"]["dense"]); got != target {
			t.Fatalf("harness: surviving cardinality %d, wanted %d", got, target)
		}
		obs, err := Observe(c.Seg, ProbeFields, NoStats)
		if err != nil {
			t.Fatalf("case %s %s: %v", sc, c.Desc, err)
		}
		if assoc {
			// C17's oracle: the same merge with the small input NOT merged beforehand (all at once) reads the same
			flatIns := []*SegCase{caBuilt, cb}
			if ins[0] == cb {
				flatIns = []*SegCase{cb, caBuilt}
			}
			flat, _, err := MergeCases(ctx, flatIns, drops, c.Mode, holdMem)
			if err != nil {
				t.Fatalf("%s: %v", sc, err)
			}
			of, err := Observe(flat.Seg, ProbeFields, AllFacets)
			if err != nil {
				t.Fatalf("case %s %s: observing the all-at-once merge: %v", sc, flat.Desc, err)
			}
			on, err := Observe(c.Seg, ProbeFields, AllFacets)
			if err != nil {
				t.Fatalf("case %s %s: %v", sc, c.Desc, err)
			}
			if d := DiffObs(of, on, AllFacets); d != "" {
				t.Fatalf("case %s\n  all at once: %s\n  small input merged alone first: %s\n  differ: %s", sc, flat.Desc, c.Desc, d)
			}
			st.Record(sc.String()+" "+c.Desc, true, fmt.Sprintf("surviving-cardinality-%d", target))
			return
		}
		if d := Diff(c.Exp, obs, NoStats); d != "" {
			t.Fatalf("case %s %s:\n  merged vs model: %s", sc, c.Desc, d)
		}
		d, err := rebuildDiff(sc, c, obs, FamWide)
		if err != nil {
			t.Fatalf("case %s %s: %v", sc, c.Desc, err)
		}
		if d != "" {
			t.Fatalf("case %s %s:\n  merged vs rebuilt survivors: %s", sc, c.Desc, d)
		}
		labels := c.LabelList()
		labels = append(labels, fmt.Sprintf("surviving-cardinality-%d", target))
		if preMerged && !hitLocs {
			labels = append(labels, "1-hit-input")
			if dropHitA {
				labels = append(labels, "1-hit-posting-deleted")
			}
		}
		st.Record(sc.String()+" "+c.Desc, preMerged && !hitLocs, labels...)
	}
}

func TestC02Boundary(t *testing.T) {
	st := NewStats("C02Boundary", c02BoundaryRule)
	defer st.Flush()
	rapid.Check(t, c02BoundaryProp(st, false))
}

func TestC02Sparse(t *testing.T) {
	st := NewStats("C02Sparse", c02Rule)
	defer st.Flush()
	rapid.Check(t, c02Prop(st, FamSparse))
}

func TestC02Gaps(t *testing.T) {
	st := NewStats("C02Gaps", c02Rule)
	defer st.Flush()
	rapid.Check(t, c02Prop(st, FamDVGaps))
}

func TestC02Counts(t *testing.T) {
	st := NewStats("C02Counts", c02Rule)
	defer st.Flush()
	rapid.Check(t, c02Prop(st, FamCounts))
}
