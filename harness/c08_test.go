package harness

import (
	"bytes"
	"fmt"
	"sort"
	"testing"

	segment "github.com/blugelabs/bluge_segment_api"
	"pgregory.net/rapid"
)

// C08 — dictionaries enumerate exactly the live terms, in order, with true counts.
const c08Rule = "case = built or merged segment (merges drawn so that 1-hit and general encoded terms interleave) x field (known or unknown) x [start,end) range (each bound nil or non-empty, " +
	"taken from existing terms, prefixes, successors, unrelated keys; start<=end) x automaton (nil, always, prefix, contains-byte, length-mod-k); oracle = model's live term set filtered by range and " +
	"automaton, ascending, count = live documents; plus Contains/PostingsList for present, absent and deleted-away terms and unknown fields; non-trivial = enumeration returns >=2 terms and the " +
	"range or automaton filters out >=1; distinct = hash of case text + query"

// harness-side automata implementing segment.Automaton; simple enough that
// the oracle is "run the automaton over the term".
type autPrefix struct{ p []byte }

// states: 0..len(p) = matched so far; len(p)+1 = dead
func (a autPrefix) Start() int                 { return 0 }
func (a autPrefix) IsMatch(s int) bool         { return s == len(a.p) }
func (a autPrefix) CanMatch(s int) bool        { return s <= len(a.p) }
func (a autPrefix) WillAlwaysMatch(s int) bool { return s == len(a.p) }
func (a autPrefix) Accept(s int, b byte) int {
	if s == len(a.p) {
		return s
	}
	if s < len(a.p) && a.p[s] == b {
		return s + 1
	}
	return len(a.p) + 1
}

type autAlways struct{}

func (autAlways) Start() int               { return 0 }
func (autAlways) IsMatch(int) bool         { return true }
func (autAlways) CanMatch(int) bool        { return true }
func (autAlways) WillAlwaysMatch(int) bool { return true }
func (autAlways) Accept(int, byte) int     { return 0 }

type autContains struct{ b byte }

func (a autContains) Start() int                 { return 0 }
func (a autContains) IsMatch(s int) bool         { return s == 1 }
func (a autContains) CanMatch(int) bool          { return true }
func (a autContains) WillAlwaysMatch(s int) bool { return s == 1 }
func (a autContains) Accept(s int, b byte) int {
	if s == 1 || b == a.b {
		return 1
	}
	return 0
}

type autLenMod struct{ k, r int }

func (a autLenMod) Start() int               { return 0 }
func (a autLenMod) IsMatch(s int) bool       { return s == a.r }
func (a autLenMod) CanMatch(int) bool        { return true }
func (a autLenMod) WillAlwaysMatch(int) bool { return false }
func (a autLenMod) Accept(s int, _ byte) int { return (s + 1) % a.k }

type automaton interface {
	Start() int
	IsMatch(int) bool
	CanMatch(int) bool
	WillAlwaysMatch(int) bool
	Accept(int, byte) int
}

func autMatches(a automaton, term string) bool {
	if a == nil {
		return true
	}
	s := a.Start()
	for i := 0; i < len(term); i++ {
		s = a.Accept(s, term[i])
	}
	return a.IsMatch(s)
}

func genAutomaton(t *rapid.T, terms []string) (automaton, string) {
	switch rapid.IntRange(0, 6).Draw(t, "autKind") {
	case 0, 1:
		return nil, "nil"
	case 2:
		return autAlways{}, "always"
	case 3, 4:
		var p string
		if len(terms) > 0 && rapid.Bool().Draw(t, "prefixFromTerm") {
			tm := rapid.SampledFrom(terms).Draw(t, "prefixTerm")
			p = tm[:rapid.IntRange(0, len(tm)).Draw(t, "prefixLen")]
		} else {
			p = rapid.SampledFrom([]string{"", "a", "z", "zzzz", "\x00", "\xfe", "q"}).Draw(t, "prefix")
		}
		return autPrefix{[]byte(p)}, fmt.Sprintf("prefix(%q)", p)
	case 5:
		b := rapid.SampledFrom([]byte{'a', 'z', 0, 0xfe, 0xff, '-'}).Draw(t, "containsByte")
		return autContains{b}, fmt.Sprintf("contains(%#x)", b)
	default:
		k := rapid.IntRange(1, 3).Draw(t, "k")
		r := rapid.IntRange(0, k-1).Draw(t, "r")
		return autLenMod{k, r}, fmt.Sprintf("len%%%d==%d", k, r)
	}
}

func genBound(t *rapid.T, terms []string, label string) []byte {
	switch rapid.IntRange(0, 5).Draw(t, label+"Kind") {
	case 0, 1:
		return nil
	case 2: // an existing term (non-empty)
		if len(terms) > 0 {
			tm := rapid.SampledFrom(terms).Draw(t, label+"Term")
			if tm != "" {
				return []byte(tm)
			}
		}
		return []byte("a")
	case 3: // successor of an existing term
		if len(terms) > 0 {
			return []byte(rapid.SampledFrom(terms).Draw(t, label+"Term") + "\x00")
		}
		return []byte("\x00")
	case 4: // proper prefix of an existing term
		if len(terms) > 0 {
			tm := rapid.SampledFrom(terms).Draw(t, label+"Term")
			if len(tm) > 1 {
				return []byte(tm[:rapid.IntRange(1, len(tm)-1).Draw(t, label+"Cut")])
			}
		}
		return []byte("z")
	default:
		return []byte(rapid.SampledFrom([]string{"\x00", "a", "aa", "m", "n", "zzzz", "\xfe", "\xff\xff"}).Draw(t, label+"Key"))
	}
}

func TestC08(t *testing.T) {
	st := NewStats("C08", c08Rule)
	defer st.Flush()
	rapid.Check(t, c08Prop(st, FamSmall))
}

func TestC08Terms(t *testing.T) {
	st := NewStats("C08Terms", c08Rule)
	defer st.Flush()
	rapid.Check(t, c08Prop(st, FamTerms))
}

func c08Prop(st *CaseStats, fam int) func(t *rapid.T) {
	return func(t *rapid.T) {
		ctx := &Ctx{}
		defer ctx.Close()
		sc := GenScenario(t)
		c, err := GenCase(t, ctx, sc, CaseCfg{Family: fam, MaxDocs: 8, MaxIn: 3, HoldAny: true},
			rapid.SampledFrom([]int{0, 1, 1, 1, 2}).Draw(t, "depth"), "c")
		if err != nil {
			t.Fatalf("%s: %v", sc, err)
		}
		if rapid.Bool().Draw(t, "lookupsFirst") {
			// earlier lookups through the library's own reuse paths must not influence what dictionaries report
			var list []segment.Term
			for _, f := range c.Exp.Fields {
				for _, tm := range sortedKeys(c.Exp.Post[f]) {
					list = append(list, ftTerm{f, tm})
				}
			}
			list = append(list, ftTerm{UnknownField, "x"}, ftTerm{"a", "absent"})
			if err := safely("DocsMatchingTerms", func() error { _, e := c.Seg.DocsMatchingTerms(list); return e }); err != nil {
				t.Fatalf("%s %s: %v", sc, c.Desc, err)
			}
			err := safely("reuse idiom", func() error {
				var pl segment.PostingsList
				for _, x := range list {
					d, err := c.Seg.Dictionary(x.Field())
					if err != nil {
						return err
					}
					if pl, err = d.PostingsList(x.Term(), nil, pl); err != nil {
						return err
					}
				}
				return nil
			})
			if err != nil {
				t.Fatalf("%s %s: %v", sc, c.Desc, err)
			}
		}
		nq := rapid.IntRange(1, 4).Draw(t, "nQueries")
		labels := c.LabelList()
		nt := false
		queries := ""
		type entry struct {
			term  string
			count uint64
		}
		type dictQuery struct {
			field      string
			start, end []byte
			want       []string
			filtered   int
			desc       string
			it         segment.DictionaryIterator
			dict       segment.Dictionary
			aut        automaton
			got        []entry
			opened     bool
			done       bool
			closed     bool
		}
		// one Dictionary object per field serving all queries, or a fresh one per query
		sharedDict := rapid.Bool().Draw(t, "sharedDict")
		// all iterators opened first and consumed in a drawn interleaving, or one after the other
		interleave := nq >= 2 && rapid.Bool().Draw(t, "interleave")
		closeEarly := rapid.Bool().Draw(t, "closeEarly")
		dicts := map[string]segment.Dictionary{}
		var qs []*dictQuery
		fail := func(q *dictQuery, err error) {
			t.Fatalf("case %s %s\n  queries%s (sharedDict=%v interleave=%v)\n  query%s: %v", sc, c.Desc, queries, sharedDict, interleave, q.desc, err)
		}
		open := func(q *dictQuery, a automaton) {
			err := safely("dictionary iterator", func() error {
				d := dicts[q.field]
				if d == nil || !sharedDict {
					var err error
					if d, err = c.Seg.Dictionary(q.field); err != nil {
						return err
					}
					dicts[q.field] = d
				}
				if a != nil {
					q.it = d.Iterator(a, q.start, q.end)
				} else {
					q.it = d.Iterator(nil, q.start, q.end)
				}
				q.dict = d
				return nil
			})
			if err != nil {
				fail(q, err)
			}
		}
		step := func(q *dictQuery) {
			err := safely("dictionary iteration", func() error {
				e, err := q.it.Next()
				if err != nil {
					return err
				}
				if e == nil {
					q.done = true
					// nil stays nil
					if e, err := q.it.Next(); e != nil || err != nil {
						return fmt.Errorf("Next after the end returned %v, %v", e, err)
					}
					if !sharedDict && closeEarly {
						// this query's own Dictionary is finished with: closing it must not disturb the
						// other dictionaries (of the same field) that are still being read
						q.closed = true
						if err := q.it.Close(); err != nil {
							return err
						}
						return q.dict.Close()
					}
					return nil
				}
				q.got = append(q.got, entry{e.Term(), e.Count()})
				if len(q.got) > 10000 {
					return fmt.Errorf("iterator does not terminate")
				}
				return nil
			})
			if err != nil {
				fail(q, err)
			}
		}
		for qi := 0; qi < nq; qi++ {
			field := rapid.SampledFrom(ProbeFields).Draw(t, "field")
			if rapid.IntRange(0, 3).Draw(t, "richestField") > 0 {
				for _, f := range c.Exp.Fields {
					if len(c.Exp.Post[f]) > len(c.Exp.Post[field]) {
						field = f
					}
				}
			}
			live := sortedKeys(c.Exp.Post[field])
			a, adesc := genAutomaton(t, live)
			start := genBound(t, live, "start")
			end := genBound(t, live, "end")
			if start != nil && end != nil && bytes.Compare(start, end) > 0 {
				start, end = end, start
			}
			q := &dictQuery{field: field, start: start, end: end, desc: fmt.Sprintf(" [field %q range %q..%q aut %s]", field, start, end, adesc)}
			queries += q.desc
			for _, tm := range live {
				if (start == nil || bytes.Compare([]byte(tm), start) >= 0) && (end == nil || bytes.Compare([]byte(tm), end) < 0) && autMatches(a, tm) {
					q.want = append(q.want, tm)
				} else {
					q.filtered++
				}
			}
			q.aut = a
			qs = append(qs, q)
			if !interleave {
				open(q, a)
				q.opened = true
				for !q.done {
					step(q)
				}
			}
			if start != nil || end != nil {
				labels = append(labels, "ranged")
			}
			if a != nil {
				labels = append(labels, "automaton")
			}
			if len(c.Exp.Post[field]) == 0 {
				labels = append(labels, "unknown-or-empty-field")
			}
		}
		if interleave {
			// a drawn schedule of open / step / close over all queries: iterators are opened while others are
			// half consumed, and finished ones are closed early, late, or only at the very end
			switches := 0
			lastPick := -1
			lateClose := false
			for {
				type act struct{ kind, q int }
				var acts []act
				for i, q := range qs {
					switch {
					case !q.opened:
						acts = append(acts, act{0, i})
					case !q.done:
						acts = append(acts, act{1, i}, act{1, i})
					case !q.closed && (sharedDict || !closeEarly):
						acts = append(acts, act{2, i})
					}
				}
				stepsLeft := false
				for _, a := range acts {
					if a.kind != 2 {
						stepsLeft = true
					}
				}
				if !stepsLeft {
					break
				}
				a := acts[rapid.IntRange(0, len(acts)-1).Draw(t, "pick")]
				q := qs[a.q]
				switch a.kind {
				case 0:
					open(q, q.aut)
					q.opened = true
				case 1:
					if lastPick >= 0 && a.q != lastPick && qs[lastPick].opened && !qs[lastPick].done {
						switches++
					}
					lastPick = a.q
					step(q)
				default:
					q.closed = true
					if err := safely("close", q.it.Close); err != nil {
						fail(q, err)
					}
					lateClose = true
				}
			}
			if switches > 0 {
				labels = append(labels, "interleaved-dict-iterators")
				if sharedDict {
					labels = append(labels, "interleaved-on-one-dictionary")
				}
			}
			if lateClose {
				labels = append(labels, "iterator-closed-while-others-open")
			}
		}
		for _, q := range qs {
			if !q.closed {
				if err := safely("close", q.it.Close); err != nil {
					fail(q, err)
				}
			}
			got, want, field := q.got, q.want, q.field
			if len(got) != len(want) {
				fail(q, fmt.Errorf("expected terms %q, got %v", want, got))
			}
			oneHitSeen, oneHitBeforeGeneral := false, false
			for i := range want {
				wc := uint64(len(c.Exp.Post[field][want[i]]))
				if got[i].term != want[i] || got[i].count != wc {
					fail(q, fmt.Errorf("entry #%d expected %q count %d, got %q count %d (all: %v)", i, want[i], wc, got[i].term, got[i].count, got))
				}
				pl := c.Exp.Post[field][want[i]]
				if c.Merged && len(pl) == 1 && pl[0].Freq == 1 && len(pl[0].Locs) == 0 {
					oneHitSeen = true
				} else if oneHitSeen && len(pl) >= 2 {
					oneHitBeforeGeneral = true
				}
			}
			if oneHitBeforeGeneral {
				labels = append(labels, "1-hit-before-general")
			}
			if len(want) >= 2 && q.filtered >= 1 {
				nt = true
			}
		}
		if sharedDict {
			labels = append(labels, "shared-dictionary")
		} else if closeEarly && interleave {
			labels = append(labels, "dictionary-closed-while-others-in-use")
		}
		// Contains / PostingsList agree with the live set; the caller keeps ONE term buffer and overwrites it
		// for every probe, and (with a shared dictionary) asks one Dictionary object for several terms in a row
		var termBuf []byte
		for k := 0; k < 4; k++ {
			field := rapid.SampledFrom(ProbeFields).Draw(t, "cField")
			term := rapid.SampledFrom(append(append([]string{}, TermVocab...), "absent")).Draw(t, "cTerm")
			if ks := sortedKeys(c.Exp.Post[field]); len(ks) > 0 && rapid.Bool().Draw(t, "cLive") {
				term = rapid.SampledFrom(ks).Draw(t, "cLiveTerm")
				if k > 0 && rapid.Bool().Draw(t, "cSameLen") {
					// prefer a term as long as the previous one: the buffer keeps its length
					for _, x := range ks {
						if len(x) == len(termBuf) && x != string(termBuf) {
							term = x
							break
						}
					}
				}
			}
			live := c.Exp.Post[field][term]
			termBuf = append(termBuf[:0], term...)
			err := safely("Contains/PostingsList", func() error {
				d := dicts[field]
				if d == nil || !sharedDict {
					var err error
					if d, err = c.Seg.Dictionary(field); err != nil {
						return err
					}
					dicts[field] = d
				}
				ok, err := d.Contains(termBuf)
				if err != nil || ok != (len(live) > 0) {
					return fmt.Errorf("Contains(%q/%q) = %v, %v; the term has %d live documents", field, term, ok, err, len(live))
				}
				pl, err := d.PostingsList(termBuf, nil, nil)
				if err != nil {
					return err
				}
				if pl.Count() != uint64(len(live)) {
					return fmt.Errorf("PostingsList(%q/%q).Count() = %d, expected %d", field, term, pl.Count(), len(live))
				}
				ps, err := WalkPostings(pl, true, true, true)
				if err != nil {
					return err
				}
				if d := postingsDiff(live, ps); d != "" {
					return fmt.Errorf("PostingsList(%q/%q): %s", field, term, d)
				}
				return nil
			})
			if err != nil {
				t.Fatalf("case %s %s (probe %d through a reused term buffer, sharedDict=%v): %v", sc, c.Desc, k, sharedDict, err)
			}
			if len(live) == 0 {
				if err := probeAbsent(c.Seg, field, term); err != nil {
					t.Fatalf("case %s %s: %v", sc, c.Desc, err)
				}
			}
		}
		sort.Strings(labels)
		st.Record(fmt.Sprintf("%s %s queries%s", sc, c.Desc, queries), nt, dedup(labels)...)
	}
}
