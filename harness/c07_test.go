package harness

import (
	"fmt"
	"strings"
	"testing"

	segment "github.com/blugelabs/bluge_segment_api"
	"pgregory.net/rapid"
)

// C07 — doc values return exactly each document's terms for the requested fields.
const c07Rule = "case = segment (small and >1024-document families; built, loaded, merged) x one DocumentValueReader over a drawn field list (subset, permutation, duplicates, unknown names, " +
	"fields without doc values) x drawn visiting history with that one reader (forwards, backwards, random, ping-pong across the 1024-document chunk boundaries, documents without terms); " +
	"oracle = per visit, for each requested field in request order that has doc values, the document's sorted distinct terms and nothing else (merged: the source document's under its new number); " +
	"non-trivial = segment has >=2 doc-value chunks and the history changes chunk >=2 times, or the request mixes doc-value and non-doc-value fields and >=1 value is delivered; distinct = hash of case text + request + history"

func c07Prop(st *CaseStats, fam int) func(t *rapid.T) {
	return func(t *rapid.T) {
		ctx := &Ctx{}
		defer ctx.Close()
		sc := GenScenario(t)
		cfg := CaseCfg{Family: fam, MaxDocs: 8, MaxIn: 3, HoldAny: true}
		depth := rapid.SampledFrom([]int{0, 0, 1, 1, 2}).Draw(t, "depth")
		if fam == FamBlocks || fam == FamWide || fam == FamHuge || fam == FamDVGaps {
			cfg.MaxIn = 2
			depth = rapid.SampledFrom([]int{0, 1, 1}).Draw(t, "depth")
		}
		c, err := GenCase(t, ctx, sc, cfg, depth, "c")
		if err != nil {
			t.Fatalf("%s: %v", sc, err)
		}
		fields := rapid.SliceOfN(rapid.SampledFrom(ProbeFields), 0, 6).Draw(t, "fields")
		var dvFields []string
		for _, f := range c.Exp.Fields {
			if per := c.Exp.DV[f]; per != nil && !dvEmpty(per) {
				dvFields = append(dvFields, f)
			}
		}
		if len(dvFields) > 0 && rapid.IntRange(0, 3).Draw(t, "forceDV") > 0 {
			f := rapid.SampledFrom(dvFields).Draw(t, "dvField")
			at := rapid.IntRange(0, len(fields)).Draw(t, "dvAt")
			fields = append(fields[:at:at], append([]string{f}, fields[at:]...)...)
		}
		// documents whose field value follows >= 1024 documents without any value in that field
		// (whole doc-value chunks without entries before them)
		type gapT struct {
			f   string
			doc int
		}
		var gaps []gapT
		for _, f := range dvFields {
			last := -1
			for d, ts := range c.Exp.DV[f] {
				if len(ts) > 0 {
					if d/1024 > (last+1024)/1024 || (last < 0 && d >= 1024) {
						gaps = append(gaps, gapT{f, d})
					}
					last = d
				}
			}
		}
		forcedDoc := -1
		if len(gaps) > 0 && rapid.IntRange(0, 3).Draw(t, "visitGap") > 0 {
			g := gaps[rapid.IntRange(0, len(gaps)-1).Draw(t, "gap")]
			fields = append(fields, g.f)
			forcedDoc = g.doc
		}
		r, err := c.Seg.DocumentValueReader(fields)
		if err != nil {
			t.Fatalf("%s %s: DocumentValueReader: %v", sc, c.Desc, err)
		}
		n := c.Exp.N
		nv := rapid.IntRange(1, 14).Draw(t, "nVisits")
		var hist []uint64
		cur := 0
		delivered := 0
		chunkChanges := 0
		lastChunk := -1
		for i := 0; i < nv && n > 0; i++ {
			switch rapid.IntRange(0, 6).Draw(t, "move") {
			case 0:
				cur = rapid.IntRange(0, n-1).Draw(t, "doc")
			case 1:
				if cur+1 < n {
					cur++
				}
			case 2:
				if cur > 0 {
					cur--
				}
			case 3: // just before / after a 1024 boundary (or the 65536 container boundary)
				b := rapid.IntRange(0, n/1024).Draw(t, "boundary") * 1024
				if n > 65536 && rapid.Bool().Draw(t, "at65536") {
					b = 65536
				}
				cur = b + rapid.SampledFrom([]int{-1, 0, 1}).Draw(t, "side")
			case 4:
				cur = n - 1
			case 5:
				cur = 0
			default: // same document again
			}
			if i == 1 && forcedDoc >= 0 {
				cur = forcedDoc
			}
			if cur < 0 {
				cur = 0
			}
			if cur >= n {
				cur = n - 1
			}
			hist = append(hist, uint64(cur))
			if err := checkDVVisit(r, c.Exp, fields, uint64(cur)); err != nil {
				t.Fatalf("case %s %s\n  reader fields %q history %v: %v", sc, c.Desc, fields, hist, err)
			}
			for _, f := range fields {
				if per := c.Exp.DV[f]; per != nil {
					delivered += len(per[cur])
				}
			}
			if ch := cur / 1024; ch != lastChunk {
				if lastChunk >= 0 {
					chunkChanges++
				}
				lastChunk = ch
			}
		}
		if fam == FamDVGaps && n > 0 {
			// a complete sweep with a fresh reader over all doc-value fields, in a drawn direction
			sweepFields := append([]string{}, dvFields...)
			if rapid.Bool().Draw(t, "sweepReversedFields") {
				for i, j := 0, len(sweepFields)-1; i < j; i, j = i+1, j-1 {
					sweepFields[i], sweepFields[j] = sweepFields[j], sweepFields[i]
				}
			}
			sr, err := c.Seg.DocumentValueReader(sweepFields)
			if err != nil {
				t.Fatalf("%s %s: DocumentValueReader: %v", sc, c.Desc, err)
			}
			back := rapid.Bool().Draw(t, "sweepBackwards")
			for i := 0; i < n; i++ {
				d := i
				if back {
					d = n - 1 - i
				}
				if err := checkDVVisit(sr, c.Exp, sweepFields, uint64(d)); err != nil {
					t.Fatalf("case %s %s\n  sweep (backwards=%v) with reader fields %q at document %d: %v", sc, c.Desc, back, sweepFields, d, err)
				}
			}
			chunkChanges += n / 1024
		}
		hasDV, hasNonDV := false, false
		for _, f := range fields {
			if per := c.Exp.DV[f]; per != nil && !dvEmpty(per) {
				hasDV = true
			} else {
				hasNonDV = true
			}
		}
		labels := c.LabelList()
		if chunkChanges >= 2 {
			labels = append(labels, "chunk-changes>=2")
		}
		if hasDV && hasNonDV {
			labels = append(labels, "mixed-request")
		}
		if delivered > 0 {
			labels = append(labels, "values-delivered")
		}
		if forcedDoc >= 0 && nv > 1 {
			labels = append(labels, "value-after-empty-chunk-visited")
		}
		nt := (n > 1024 && chunkChanges >= 2) || (hasDV && hasNonDV && delivered > 0)
		st.Record(fmt.Sprintf("%s %s fields=%q history=%v", sc, c.Desc, fields, hist), nt, dedup(labels)...)
	}
}

func TestC07Small(t *testing.T) {
	st := NewStats("C07Small", c07Rule)
	defer st.Flush()
	rapid.Check(t, c07Prop(st, FamSmall))
}

func TestC07Wide(t *testing.T) {
	st := NewStats("C07Wide", c07Rule)
	defer st.Flush()
	rapid.Check(t, c07Prop(st, FamWide))
}

func TestC07Mid(t *testing.T) {
	st := NewStats("C07Mid", c07Rule)
	defer st.Flush()
	rapid.Check(t, c07Prop(st, FamMid))
}

func TestC07Huge(t *testing.T) {
	st := NewStats("C07Huge", c07Rule)
	defer st.Flush()
	rapid.Check(t, c07Prop(st, FamHuge))
}

func TestC07Gaps(t *testing.T) {
	st := NewStats("C07Gaps", c07Rule)
	defer st.Flush()
	rapid.Check(t, c07Prop(st, FamDVGaps))
}

// One doc-value chunk (the terms of up to 1024 documents of one field) of more
// than 64 MiB: beyond any plausible decoder or buffer limit. A plain test.
func TestC07HugeChunk(t *testing.T) {
	st := NewStats("C07HugeChunk", c07Rule)
	defer st.Flush()
	const nDocs, perDoc, termLen = 72, 1000, 1000
	pad := strings.Repeat("v", termLen-12)
	b := make(Batch, nDocs)
	for d := range b {
		f := Field{Name: "big", DV: true, Len: perDoc, Terms: make([]Term, perDoc)}
		for k := range f.Terms {
			f.Terms[k] = Term{T: fmt.Sprintf("%04d-%06d-%s", d, k, pad), Freq: 1}
		}
		b[d].Fields = []Field{f, {Name: "small", DV: true, Len: 1, Terms: []Term{{T: fmt.Sprintf("s%d", d%3), Freq: 1}}}}
	}
	seg, err := Build(b, normFns[0], 1025)
	if err != nil {
		t.Fatal(err)
	}
	exp := &XSeg{N: nDocs, DV: map[string][][]string{"big": make([][]string, nDocs), "small": make([][]string, nDocs)}}
	for d := range b {
		for _, tm := range b[d].Fields[0].Terms {
			exp.DV["big"][d] = append(exp.DV["big"][d], tm.T)
		}
		exp.DV["small"][d] = []string{b[d].Fields[1].Terms[0].T}
	}
	check := func(s segment.Segment, what string) {
		r, err := s.DocumentValueReader([]string{"small", "big"})
		if err != nil {
			t.Fatal(err)
		}
		for _, d := range []uint64{0, 71, 35} {
			if err := checkDVVisit(r, exp, []string{"small", "big"}, d); err != nil {
				msg := err.Error()
				if len(msg) > 600 {
					msg = msg[:600] + "..."
				}
				t.Fatalf("%s segment with a %d MB doc-value chunk: %s", what, nDocs*perDoc*termLen>>20, msg)
			}
		}
	}
	check(seg, "built")
	bs, err := Persist(seg)
	if err != nil {
		t.Fatal(err)
	}
	seg = nil
	loaded, err := LoadMem(bs)
	if err != nil {
		t.Fatal(err)
	}
	check(loaded, "loaded")
	st.Record("72 documents x 1000 terms x 1000 bytes in one doc-value field", true, "doc-value-chunk>64MiB")
}
