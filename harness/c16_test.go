package harness

import (
	"fmt"
	"testing"

	"github.com/RoaringBitmap/roaring"
	segment "github.com/blugelabs/bluge_segment_api"
	ice "github.com/blugelabs/ice/v2"
	"pgregory.net/rapid"
)

// C16 — collection statistics describe the documents actually in the segment.
const c16Rule = "case = built / loaded / merged segment (trees of merges with drops) over batches whose reported field length equals the sum of the term frequencies " +
	"(incl. documents that carry a field with zero terms); oracle = TotalDocumentCount = Count, DocumentCount = documents carrying the field (merged: survivors with >=1 term in it), " +
	"SumTotalTermFrequency = sum of frequencies; unknown field all zero; CollectionStats.Merge adds component-wise (incl. self-merge); non-trivial = merged from >=2 segments sharing >=1 term " +
	"with >=1 drop, or a document with a term-less field; distinct = hash of the canonical case text"

func statsOf(cs segment.CollectionStats) XStats {
	return XStats{cs.TotalDocumentCount(), cs.DocumentCount(), cs.SumTotalTermFrequency()}
}

func c16Prop(st *CaseStats, fam int) func(t *rapid.T) {
	return func(t *rapid.T) {
		ctx := &Ctx{}
		defer ctx.Close()
		sc := GenScenario(t)
		sc.LenEqFreq = true // the property's stated domain
		cfg := CaseCfg{Family: fam, MaxDocs: 8, MaxIn: 3, HoldAny: true}
		depth := rapid.SampledFrom([]int{0, 1, 1, 2, 3}).Draw(t, "depth")
		if fam == FamCounts && sc.Norm.ID == 3 {
			sc.Norm = normFns[0] // the extreme norm function is not defined for lengths beyond 2^32
		}
		if fam == FamBlocks || fam == FamWide || fam == FamCounts || fam == FamHuge {
			cfg.MaxIn = 2
			depth = rapid.SampledFrom([]int{0, 1}).Draw(t, "depth")
		}
		if fam == FamHuge {
			depth = rapid.SampledFrom([]int{0, 1, 1, 1}).Draw(t, "depthHuge")
		}
		failedBefore := false
		if fam == FamSmall && rapid.IntRange(0, 2).Draw(t, "failedMergeFirst") == 0 {
			// an unrelated merge fails part way (the destination fails at a drawn offset) before the case is made:
			// whatever the merger recycles between merges must come back clean
			ob := GenBatch(t, sc, 10)
			if oseg, err := Build(ob, sc.Norm, 1025); err == nil && len(ob) > 0 {
				k := rapid.IntRange(0, 600).Draw(t, "failedMergeAt")
				_ = safely("failed merge", func() error {
					_, e := ice.Merge([]segment.Segment{oseg, oseg}, []*roaring.Bitmap{nil, nil}, rapid.SampledFrom([]int{0, 16}).Draw(t, "failedMergeBuf")).WriteTo(&failAfter{k: k}, nil)
					return e
				})
				failedBefore = true
			}
		}
		c, err := GenCase(t, ctx, sc, cfg, depth, "c")
		if err != nil {
			t.Fatalf("%s: %v", sc, err)
		}
		desc := fmt.Sprintf("%s %s", sc, c.Desc)
		obs, err := Observe(c.Seg, ProbeFields, Facets{Stats: true})
		if err != nil {
			t.Fatalf("%s: %v", desc, err)
		}
		if d := Diff(c.Exp, obs, Facets{Stats: true}); d != "" {
			t.Fatalf("%s:\n  %s", desc, d)
		}
		// statistics describe THIS segment's documents whatever is built afterwards
		if rapid.Bool().Draw(t, "buildLater") {
			later := GenBatch(t, sc, 6)
			if _, err := Build(later, sc.Norm, 1025); err != nil {
				t.Fatalf("%s: later build: %v", desc, err)
			}
			obs2, err := Observe(c.Seg, ProbeFields, Facets{Stats: true})
			if err != nil {
				t.Fatalf("%s: %v", desc, err)
			}
			if d := Diff(c.Exp, obs2, Facets{Stats: true}); d != "" {
				t.Fatalf("%s:\n  after building another batch {%s}: %s", desc, later, d)
			}
		}
		// Merge adds component-wise
		f1 := rapid.SampledFrom(ProbeFields).Draw(t, "f1")
		f2 := rapid.SampledFrom(ProbeFields).Draw(t, "f2")
		a, err := c.Seg.CollectionStats(f1)
		if err != nil {
			t.Fatalf("%s: %v", desc, err)
		}
		b, err := c.Seg.CollectionStats(f2)
		if err != nil {
			t.Fatalf("%s: %v", desc, err)
		}
		sa, sb := statsOf(a), statsOf(b)
		a.Merge(b)
		if got, want := statsOf(a), (XStats{sa.Total + sb.Total, sa.DocCount + sb.DocCount, sa.SumTTF + sb.SumTTF}); got != want {
			t.Fatalf("%s:\n  CollectionStats(%q).Merge(CollectionStats(%q)) = %+v, expected %+v", desc, f1, f2, got, want)
		}
		if statsOf(b) != sb {
			t.Fatalf("%s:\n  Merge modified its argument", desc)
		}
		// an argument that is not ice's own statistics type (another segment implementation, a caller-side value)
		fa, err := c.Seg.CollectionStats(f1)
		if err != nil {
			t.Fatalf("%s: %v", desc, err)
		}
		sfa := statsOf(fa)
		fa.Merge(&oneDocStats{})
		if got, want := statsOf(fa), (XStats{sfa.Total + 5, sfa.DocCount + 2, sfa.SumTTF + 11}); got != want {
			t.Fatalf("%s:\n  CollectionStats(%q).Merge(foreign statistics {5 2 11}) = %+v, expected %+v", desc, f1, got, want)
		}
		b.Merge(b) // self-merge aliasing
		if got, want := statsOf(b), (XStats{2 * sb.Total, 2 * sb.DocCount, 2 * sb.SumTTF}); got != want {
			t.Fatalf("%s:\n  self-merge of CollectionStats(%q) = %+v, expected %+v", desc, f2, got, want)
		}
		// an index reader aggregates by merging OTHER segments' statistics into the object it got
		// from the first segment: that must not change what any segment reports afterwards
		for _, f := range []string{f1, UnknownField} {
			x, err := c.Seg.CollectionStats(f)
			if err != nil {
				t.Fatalf("%s: %v", desc, err)
			}
			x.Merge(&oneDocStats{})
			x.Merge(&oneDocStats{})
		}
		obs3, err := Observe(c.Seg, ProbeFields, Facets{Stats: true})
		if err != nil {
			t.Fatalf("%s: %v", desc, err)
		}
		if d := Diff(c.Exp, obs3, Facets{Stats: true}); d != "" {
			t.Fatalf("%s:\n  after statistics objects returned by the segment were used as Merge receivers: %s", desc, d)
		}
		labels := c.LabelList()
		termless := false
		for di := range c.Docs {
			for fi := range c.Docs[di].Fields {
				if len(c.Docs[di].Fields[fi].Terms) == 0 {
					termless = true
				}
			}
		}
		if termless {
			labels = append(labels, "termless-field")
		}
		if failedBefore {
			labels = append(labels, "after-a-failed-merge")
		}
		nt := (c.Merged && c.Labels["multi-input"] && c.Labels["drop+survivor"]) || termless
		st.Record(desc, nt, labels...)
	}
}

func TestC16Small(t *testing.T) {
	st := NewStats("C16Small", c16Rule)
	defer st.Flush()
	rapid.Check(t, c16Prop(st, FamSmall))
}

func TestC16Wide(t *testing.T) {
	st := NewStats("C16Wide", c16Rule)
	defer st.Flush()
	rapid.Check(t, c16Prop(st, FamWide))
}

func TestC16Mid(t *testing.T) {
	st := NewStats("C16Mid", c16Rule)
	defer st.Flush()
	rapid.Check(t, c16Prop(st, FamMid))
}

func TestC16ManyFields(t *testing.T) {
	st := NewStats("C16ManyFields", c16Rule)
	defer st.Flush()
	rapid.Check(t, c16Prop(st, FamManyFields))
}

func TestC16Counts(t *testing.T) {
	st := NewStats("C16Counts", c16Rule)
	defer st.Flush()
	rapid.Check(t, c16Prop(st, FamCounts))
}

func TestC16Huge(t *testing.T) {
	st := NewStats("C16Huge", c16Rule)
	defer st.Flush()
	rapid.Check(t, c16Prop(st, FamHuge))
}
