package harness

// Generators. Every random choice is a rapid draw. Inputs are constructed
// valid (the input contract of DESIGN.md section 1), never filtered.

import (
	"fmt"
	"sort"
	"strings"

	"github.com/RoaringBitmap/roaring"
	"pgregory.net/rapid"
)

// "Body" sorts before "_id" byte-wise: the field list must still start with `_id`.
// "A0" too; "" is a legal (if unusual) field name: the property quantifiers do not exclude it.
// LongFieldName needs a two-byte length varint in the fields section.
var LongFieldName = "long-field-name-" + strings.Repeat("n", 120)

// "a,b" contains a separator: the field lists [_id a,b] and [_id a b] read the same when joined with ",".
var FieldVocab = []string{"_id", "a", "b", "title", "zz", "Body", "A0", "", LongFieldName, "a,b"}

// UnknownField is never part of a batch.
const UnknownField = "nope"

var ProbeFields = append(append([]string{}, FieldVocab...), UnknownField)

// terms whose length sits on / beyond the one-byte varint boundary
var term128 = strings.Repeat("q", 128)
var term300 = strings.Repeat("r", 300)

const longTerm = "zzzzzzzzzzzzzzzzzzzzzzzzzzzzzzzzzzzzzzzzzzzzzzzzzzzzzzzzzzzzzzzzzzzzzzz-long"

// TermVocab: empty, binary, 0xfe-tailed, 0xff-containing (index 6; never used
// in doc-value fields), long.
var TermVocab = []string{"", "\x00", "a", "ab", "b", "x\xfe", "k\xffz", "m", longTerm, "\xfe\xfe", term128, term300}

const ffTermIdx = 6

var ChunkModes = []uint32{1, 2, 3, 4, 5, 7, 1024, 1025}

var posVals = []int{0, 1, 2, 5, 127, 128, 300, 16383, 16384, 1 << 21, 1<<31 - 1, 1 << 35, 1 << 62}

// dv modes of a field within a scenario
const (
	dvNever = iota
	dvAlways
	dvMixed
)

// Scenario holds what is constant across the segments of one case.
type Scenario struct {
	Schema    map[string]int // field -> dv mode
	Norm      NormFn
	LenEqFreq bool // reported field length == sum of term frequencies
}

func GenScenario(t *rapid.T) *Scenario {
	sc := &Scenario{Schema: map[string]int{}}
	for _, f := range FieldVocab {
		sc.Schema[f] = rapid.SampledFrom([]int{dvNever, dvAlways, dvAlways, dvMixed}).Draw(t, "dv:"+f)
	}
	sc.Norm = normFns[rapid.IntRange(0, len(normFns)-1).Draw(t, "norm")]
	sc.LenEqFreq = rapid.Bool().Draw(t, "lenEqFreq")
	return sc
}

func (sc *Scenario) String() string {
	var parts []string
	for _, f := range FieldVocab {
		parts = append(parts, fmt.Sprintf("%s:%d", f, sc.Schema[f]))
	}
	return fmt.Sprintf("schema{%s} norm%d lenEqFreq=%v", strings.Join(parts, ","), sc.Norm.ID, sc.LenEqFreq)
}

func genValue(t *rapid.T) string {
	k := rapid.IntRange(0, 40).Draw(t, "valKind")
	if k > 6 && k < 40 {
		k = 5 + k%2
	}
	switch k {
	case 40:
		// a large value: several zstd blocks, a stored chunk far bigger than any reused buffer
		return strings.Repeat("large-stored-value-", rapid.SampledFrom([]int{500, 8000, 60000}).Draw(t, "bigRep"))
	case 0:
		return ""
	case 1:
		return "v"
	case 2:
		return "hello world"
	case 3:
		return "\x00\xff\x00"
	case 4:
		return strings.Repeat("ab", rapid.IntRange(1, 40).Draw(t, "valRep"))
	case 6:
		// lengths on the varint boundaries of the stored meta data
		return strings.Repeat("w", rapid.SampledFrom([]int{127, 128, 129, 255, 256}).Draw(t, "valBoundaryLen"))
	default:
		return rapid.StringOfN(rapid.RuneFrom([]rune("abcxyz019 ")), 0, 12, -1).Draw(t, "val")
	}
}

// GenBatch draws a "small family" batch: 0..maxDocs documents over a drawn
// subset of the field vocabulary.
func GenBatch(t *rapid.T, sc *Scenario, maxDocs int) Batch {
	// fields this batch may use (at least one)
	var allowed []string
	mask := rapid.IntRange(1, 1<<len(FieldVocab)-1).Draw(t, "fieldMask")
	for i, f := range FieldVocab {
		if mask&(1<<i) != 0 {
			allowed = append(allowed, f)
		}
	}
	if len(allowed) > 1 && rapid.IntRange(0, 3).Draw(t, "keepEmptyName") != 0 {
		var a2 []string
		for _, f := range allowed {
			if f != "" {
				a2 = append(a2, f)
			}
		}
		allowed = a2
	}
	nDocs := rapid.IntRange(0, maxDocs).Draw(t, "nDocs")
	b := make(Batch, nDocs)
	for di := range b {
		nf := rapid.IntRange(0, 4).Draw(t, "nFields")
		for fi := 0; fi < nf; fi++ {
			b[di].Fields = append(b[di].Fields, genField(t, sc, allowed))
		}
		if nf > 0 && rapid.IntRange(0, 15).Draw(t, "manyInstances") == 0 {
			// a multi-valued field: 9..20 more instances of the first field, each stored
			f0 := b[di].Fields[0]
			// (9..60 instances with values of 1..150 bytes: the record's meta section - field id, offset and
			// length of every value - ends up around 128 / 256 bytes, the width boundaries of its length prefix)
			nInst := rapid.IntRange(9, 20).Draw(t, "nInstances")
			if rapid.Bool().Draw(t, "manyMoreInstances") {
				nInst = rapid.IntRange(25, 60).Draw(t, "nInstancesMany")
			}
			if lens := metaExactLens(rapid.SampledFrom([]int{0, 0, 128, 256, 384}).Draw(t, "metaExact")); lens != nil && len(b[di].Fields) == 1 && !b[di].Fields[0].Store {
				// the document's stored values are exactly these instances: a meta section of exactly 128 / 256 / 384 bytes
				for k, l := range lens {
					b[di].Fields = append(b[di].Fields, Field{Name: f0.Name, DV: f0.DV, Store: true, Value: strings.Repeat(fmt.Sprintf("%d", k%10), l), Len: 1, Terms: []Term{{T: "m", Freq: 1}}})
				}
				nInst = 0
			}
			for k := nInst; k > 0; k-- {
				v := fmt.Sprintf("inst-%d", k)
				switch rapid.IntRange(0, 5).Draw(t, "instValueKind") {
				case 0:
					v = fmt.Sprintf("%d", k%10)
				case 1:
					v = fmt.Sprintf("%d-%s", k, strings.Repeat("v", 147))
				case 2:
					v = fmt.Sprintf("%02d-value", k)
				}
				b[di].Fields = append(b[di].Fields, Field{Name: f0.Name, DV: f0.DV, Store: true, Value: v, Len: 1, Terms: []Term{{T: "m", Freq: 1}}})
			}
		}
	}
	fixLocFields(b)
	return b
}

func genField(t *rapid.T, sc *Scenario, allowed []string) Field {
	f := Field{Name: rapid.SampledFrom(allowed).Draw(t, "fname")}
	mode := sc.Schema[f.Name]
	switch mode {
	case dvAlways:
		f.DV = true
	case dvMixed:
		f.DV = rapid.Bool().Draw(t, "dvFlag")
	}
	nt := rapid.IntRange(0, 4).Draw(t, "nTerms")
	sum := 0
	for ti := 0; ti < nt; ti++ {
		idx := rapid.IntRange(0, len(TermVocab)-1).Draw(t, "term")
		if idx == ffTermIdx && mode != dvNever {
			idx = 2
		}
		tm := Term{T: TermVocab[idx]}
		nl := rapid.SampledFrom([]int{0, 0, 0, 1, 1, 2, 3}).Draw(t, "nLocs")
		if rapid.IntRange(0, 40).Draw(t, "manyLocs") == 0 {
			// 40 locations: the byte length of the location block needs a two-byte varint
			for li := 0; li < 40; li++ {
				tm.Locs = append(tm.Locs, Loc{Pos: li * 1000, Start: li, End: li + 300})
			}
			nl = 0
		}
		for li := 0; li < nl; li++ {
			l := Loc{
				Field: rapid.SampledFrom([]string{"", "", f.Name, "a", "b", "title", "zz", "_id", "Body", "A0"}).Draw(t, "locField"),
				Pos:   rapid.SampledFrom(posVals).Draw(t, "pos"),
				Start: rapid.SampledFrom(posVals).Draw(t, "start"),
				End:   rapid.SampledFrom(posVals).Draw(t, "end"),
			}
			tm.Locs = append(tm.Locs, l)
		}
		tm.Freq = len(tm.Locs) + rapid.SampledFrom([]int{0, 0, 0, 1, 1, 2, 63, 64, 70, 8191, 8192}).Draw(t, "extraFreq")
		if tm.Freq < 1 {
			tm.Freq = 1
		}
		sum += tm.Freq
		f.Terms = append(f.Terms, tm)
	}
	f.Len = sum
	if !sc.LenEqFreq {
		f.Len += rapid.IntRange(0, 3).Draw(t, "extraLen")
	}
	f.Store = rapid.Bool().Draw(t, "store")
	if f.Store {
		f.Value = genValue(t)
	}
	if nt == 0 {
		f.NoIndex = rapid.Bool().Draw(t, "noIndex") // a stored-only instance
	}
	return f
}

func uvarintLen(x int) int {
	n := 1
	for x >= 128 {
		x >>= 7
		n++
	}
	return n
}

// metaExactLens returns value lengths for the stored instances of ONE field
// (field id < 128) of a document such that the record's meta section - per
// value: field id, start offset, length, each a uvarint - is exactly target
// bytes long (nil if target is 0 or no combination is found).
func metaExactLens(target int) []int {
	if target <= 0 {
		return nil
	}
	for nLong := 0; nLong <= 3; nLong++ {
		for nShort := 0; nShort <= 140; nShort++ {
			for _, longFirst := range []bool{true, false} {
				var lens []int
				if longFirst {
					for i := 0; i < nLong; i++ {
						lens = append(lens, 150)
					}
				}
				for i := 0; i < nShort; i++ {
					lens = append(lens, 1)
				}
				if !longFirst {
					for i := 0; i < nLong; i++ {
						lens = append(lens, 150)
					}
				}
				meta, curr := 0, 0
				for _, l := range lens {
					meta += 1 + uvarintLen(curr) + uvarintLen(l)
					curr += l
				}
				if meta == target {
					return lens
				}
			}
		}
	}
	return nil
}

// GenBatchManyFields draws a small batch over 62..300 field names (around 64, around 128, beyond), so that
// field ids need two-byte varints in the location streams and in the stored
// meta data; locations name high-numbered fields.
func GenBatchManyFields(t *rapid.T, sc *Scenario) Batch {
	nNames := rapid.SampledFrom([]int{62, 63, 64, 65, 126, 127, 128, 129, 130, 200, 300, 511, 512, 513, 602, 1025}).Draw(t, "nFieldNames")
	names := make([]string, nNames)
	for i := range names {
		names[i] = fmt.Sprintf("f%03d", i)
		if i%50 == 7 {
			names[i] += strings.Repeat("-long", 30) // > 127 bytes: two-byte name length
		}
	}
	b := Batch{{}}
	// one document defines every field (so that all ids exist), the others use a few of them
	for i, n := range names {
		f := Field{Name: n, Len: 1, Terms: []Term{{T: fmt.Sprintf("t%d", i%5), Freq: 1}}, DV: sc.Schema["a"] == dvAlways && i%2 == 0}
		if i%37 == 0 {
			f.Store, f.Value = true, n
		}
		b[0].Fields = append(b[0].Fields, f)
	}
	// a few "hot" fields around the one-byte / two-byte field id boundary that several documents share, so
	// that posting lists with more than one document and locations naming fields on both sides of it exist
	var hot []int
	for _, h := range []int{0, 1, 62, 63, 126, 127, 128, 129, nNames - 2, nNames - 1} {
		if h < nNames {
			hot = append(hot, h)
		}
	}
	pick := func(label string) int {
		if rapid.Bool().Draw(t, label+"Hot") {
			return rapid.SampledFrom(hot).Draw(t, label+"HotIdx")
		}
		return rapid.IntRange(0, nNames-1).Draw(t, label)
	}
	nDocs := rapid.IntRange(1, 5).Draw(t, "nDocs")
	for d := 0; d < nDocs; d++ {
		var doc Doc
		nf := rapid.IntRange(1, 4).Draw(t, "nFields")
		for k := 0; k < nf; k++ {
			fi := pick("fieldIdx")
			f := Field{Name: names[fi], DV: sc.Schema["a"] == dvAlways && fi%2 == 0}
			nt := rapid.IntRange(1, 3).Draw(t, "nTerms")
			for x := 0; x < nt; x++ {
				tm := Term{T: rapid.SampledFrom([]string{"", "t0", "t1", "x", "yy"}).Draw(t, "term")}
				nl := rapid.IntRange(0, 2).Draw(t, "nLocs")
				for l := 0; l < nl; l++ {
					lf := ""
					if rapid.Bool().Draw(t, "locOther") {
						lf = names[pick("locFieldIdx")]
					}
					tm.Locs = append(tm.Locs, Loc{Field: lf, Pos: rapid.SampledFrom(posVals).Draw(t, "pos"), Start: l, End: l + 1})
				}
				tm.Freq = nl + rapid.IntRange(0, 1).Draw(t, "xf")
				if tm.Freq == 0 {
					tm.Freq = 1
				}
				f.Terms = append(f.Terms, tm)
				f.Len += tm.Freq
			}
			if rapid.Bool().Draw(t, "store") {
				f.Store, f.Value = true, fmt.Sprintf("v-%s-%d", names[fi], d)
			}
			doc.Fields = append(doc.Fields, f)
			if rapid.IntRange(0, 2).Draw(t, "dupField") == 0 {
				// the same field again in this document (multi-valued field with a high field id)
				doc.Fields = append(doc.Fields, Field{Name: f.Name, DV: f.DV, Len: 1, Terms: []Term{{T: "dup", Freq: 1}}})
			}
		}
		b = append(b, doc)
	}
	// sometimes a tail of bare documents with small stored values: several 128-document stored blocks in a
	// segment with hundreds of fields
	if tail := rapid.SampledFrom([]int{0, 0, 0, 130, 260}).Draw(t, "bareTail"); tail > 0 {
		for i := 0; i < tail; i++ {
			hi := hot[i%len(hot)]
			f := Field{Name: names[hi], Len: 1, Terms: []Term{{T: fmt.Sprintf("t%d", i%5), Freq: 1}}, DV: sc.Schema["a"] == dvAlways && hi%2 == 0} // doc-value flags uniform per field
			if i%3 == 0 {
				f.Store, f.Value = true, fmt.Sprintf("tail-%d", i)
			}
			b = append(b, Doc{Fields: []Field{f}})
		}
	}
	return b
}

// incompressible returns n bytes that zstd cannot shrink (a deterministic
// function of seed; no RNG of our own is consulted at run time).
func incompressible(n int, seed uint64) string {
	b := make([]byte, n)
	x := seed*2862933555777941757 + 3037000493
	for i := range b {
		x ^= x << 13
		x ^= x >> 7
		x ^= x << 17
		b[i] = byte(x >> 32)
	}
	return string(b)
}

// AlignBatch appends to the last document a stored incompressible value whose
// length is searched so that the data section of the persisted segment (the
// file without its 44-byte footer) is an exact multiple of align, and returns
// whether the search converged. The search uses the builder itself; nothing
// is assumed about its output except that longer values give longer files.
func AlignBatch(b Batch, norm NormFn, mode uint32, align int, seed uint64) (Batch, int, bool) {
	out := make(Batch, len(b))
	copy(out, b)
	if len(out) == 0 {
		out = Batch{{}}
	}
	last := len(out) - 1
	base := append([]Field{}, out[last].Fields...)
	l := 1
	for iter := 0; iter < 16; iter++ {
		out[last].Fields = append(append([]Field{}, base...), Field{Name: "zz", Store: true, Value: incompressible(l, seed)})
		seg, err := Build(out, norm, mode)
		if err != nil {
			return out, 0, false
		}
		bs, err := PersistCh(seg, nil)
		if err != nil {
			return out, 0, false
		}
		data := len(bs) - 44
		if r := data % align; r == 0 {
			return out, data, true
		} else {
			l += align - r
		}
	}
	return out, 0, false
}

// GenBatchBig draws a handful of documents whose stored values are large and
// incompressible: a stored chunk, and the whole data section, beyond 1 MiB.
func GenBatchBig(t *rapid.T, sc *Scenario) Batch {
	n := rapid.IntRange(2, 6).Draw(t, "nDocs")
	size := rapid.SampledFrom([]int{300 << 10, 600 << 10, 1100 << 10}).Draw(t, "valueSize")
	b := make(Batch, n)
	for i := range b {
		b[i].Fields = append(b[i].Fields, Field{Name: "a", Len: 1, DV: sc.Schema["a"] == dvAlways, Terms: []Term{{T: fmt.Sprintf("t%d", i%2), Freq: 1}}})
		if i%2 == 0 || i == n-1 {
			b[i].Fields = append(b[i].Fields, Field{Name: "title", Store: true, Value: incompressible(size, uint64(i+1)*uint64(size))})
		}
	}
	return b
}

// GenBatchGiant: 18..40 documents with 0.5-1 MiB incompressible stored values:
// a data section beyond 16 MiB (and sometimes beyond 32 MiB).
func GenBatchGiant(t *rapid.T, sc *Scenario) Batch {
	size := rapid.SampledFrom([]int{512 << 10, 1 << 20}).Draw(t, "giantValueSize")
	total := rapid.SampledFrom([]int{17 << 20, 18 << 20, 33 << 20, 70 << 20}).Draw(t, "giantTotal")
	if total == 70<<20 {
		size = 1 << 20 // 70 documents: ONE stored block of more than 64 MiB
	}
	n := total/size + 1
	b := make(Batch, n)
	for i := range b {
		b[i].Fields = append(b[i].Fields, Field{Name: "a", Len: 1, DV: sc.Schema["a"] == dvAlways, Terms: []Term{{T: fmt.Sprintf("t%d", i%3), Freq: 1}}})
		b[i].Fields = append(b[i].Fields, Field{Name: "title", Store: true, Value: incompressible(size, uint64(i+1)*uint64(size))})
	}
	return b
}

// fixLocFields enforces "a location's field name is empty or names a field
// of the same batch" by construction.
func fixLocFields(b Batch) {
	names := map[string]bool{}
	for di := range b {
		for fi := range b[di].Fields {
			names[b[di].Fields[fi].Name] = true
		}
	}
	for di := range b {
		for fi := range b[di].Fields {
			f := &b[di].Fields[fi]
			for ti := range f.Terms {
				for li := range f.Terms[ti].Locs {
					l := &f.Terms[ti].Locs[li]
					if l.Field != "" && !names[l.Field] {
						l.Field = ""
					}
				}
			}
		}
	}
}

// ---- parametric families: a dozen draws describe hundreds of documents ----

// BlocksParams describes a batch of 129..420 mostly bare documents whose
// 128-document stored blocks differ by a few bytes.
type BlocksParams struct {
	N         int
	TermPer   int   // doc i has term "t<i%TermPer>" in field "a"
	IDEvery   int   // doc i has an _id term iff i%IDEvery==0 (0: never)
	ValPos    []int // per block: position inside the block of the doc that stores a value
	ValLen    []int // per block: length of that value
	TwoVals   bool  // the storing doc also stores a second value in field "b"
	StoreAll  int   // >0: every StoreAll-th doc stores a 1-byte value
	LastShort bool  // keep the last document of every block bare
	BigLen    int   // >0: one document stores a value of this many bytes (1 MiB+ / 4 MiB+: beyond any buffer threshold) ...
	BigAt     int   // ... this document (drawn around the last slots of a 128-document block)
}

func GenBlocks(t *rapid.T) BlocksParams {
	p := BlocksParams{N: rapid.IntRange(129, 420).Draw(t, "N")}
	if rapid.IntRange(0, 3).Draw(t, "boundaryN") == 0 {
		// exactly full / just over / just under a whole number of 128-document blocks
		p.N = rapid.SampledFrom([]int{128, 127, 129, 255, 256, 257, 384, 385}).Draw(t, "Nboundary")
	}
	p.TermPer = rapid.IntRange(1, 7).Draw(t, "termPer")
	p.IDEvery = rapid.SampledFrom([]int{0, 1, 3}).Draw(t, "idEvery")
	nb := (p.N + 127) / 128
	for b := 0; b < nb; b++ {
		p.ValPos = append(p.ValPos, rapid.IntRange(0, 126).Draw(t, "valPos"))
		p.ValLen = append(p.ValLen, rapid.IntRange(0, 24).Draw(t, "valLen"))
	}
	p.TwoVals = rapid.Bool().Draw(t, "twoVals")
	p.StoreAll = rapid.SampledFrom([]int{0, 0, 5, 64}).Draw(t, "storeAll")
	p.LastShort = rapid.SampledFrom([]bool{true, true, false}).Draw(t, "lastShort")
	if rapid.IntRange(0, 7).Draw(t, "bigValue") == 0 {
		p.BigLen = rapid.SampledFrom([]int{1<<20 + 5, 4<<20 + 5, 5 << 20}).Draw(t, "bigLen")
		blk := rapid.IntRange(0, nb-1).Draw(t, "bigBlock")
		p.BigAt = blk*128 + rapid.SampledFrom([]int{0, 5, 126, 127, 127}).Draw(t, "bigPos")
		if p.BigAt >= p.N {
			p.BigAt = p.N - 1
		}
	}
	return p
}

type blocksPlain BlocksParams

func (p BlocksParams) String() string { return fmt.Sprintf("blocks%+v", blocksPlain(p)) }

func (p BlocksParams) Batch(sc *Scenario) Batch {
	b := make(Batch, p.N)
	dv := sc.Schema["a"] != dvNever
	for i := range b {
		blk, pos := i/128, i%128
		last := pos == 127 || i == p.N-1
		fa := Field{Name: "a", Terms: []Term{{T: fmt.Sprintf("t%d", i%p.TermPer), Freq: 1}}, Len: 1, DV: dv}
		if p.ValPos[blk] == pos {
			fa.Store = true
			fa.Value = strings.Repeat("s", p.ValLen[blk])
		} else if p.StoreAll > 0 && i%p.StoreAll == 0 && !(last && p.LastShort) {
			fa.Store = true
			fa.Value = "1"
		}
		if p.BigLen > 0 && i == p.BigAt {
			fa.Store = true
			fa.Value = strings.Repeat("0123456789abcdef", p.BigLen/16+1)[:p.BigLen]
		}
		b[i].Fields = append(b[i].Fields, fa)
		if p.ValPos[blk] == pos && p.TwoVals {
			b[i].Fields = append(b[i].Fields, Field{Name: "b", Store: true, Value: "second"})
		}
		if p.IDEvery > 0 && i%p.IDEvery == 0 {
			b[i].Fields = append(b[i].Fields, Field{Name: "_id", Terms: []Term{{T: fmt.Sprintf("id%05d", i), Freq: 1}}, Len: 1})
		}
	}
	return b
}

// WideParams describes 1025..3100 documents with a dense term (>=1024 hits so
// that the adaptive chunk mode itself yields several chunks), sparse terms,
// doc values and documents without the field.
type WideParams struct {
	N            int
	DenseSkip    int // dense term absent from docs with i%DenseSkip==DenseOff (0: present everywhere)
	DenseOff     int
	DenseLocs    int // every DenseLocs-th dense posting carries a location (0: none)
	SparsePer    int // sparse term "s<i%SparsePer>" in docs with i%3==0
	NoFieldPer   int // docs with i%NoFieldPer==1 have no field "a" at all (0: never)
	SecondDV     bool
	FreqMod      int
	RepeatA      int    // >0: docs with i%RepeatA==0 carry a second instance of field "a" listing the dense term again
	EmptyTermPer int    // >0: docs with i%EmptyTermPer==1 also list the empty term (freq 2) in field "a"
	DenseName    string // name of the dense term ("dense" or "dense2": merge inputs whose dense terms differ)
	GapField     int    // >0: doc-value field "b" occurs only in document 3 and in documents >= GapField: whole 1024-document doc-value chunks without any value
	SharedID     int    // >0: every SharedID-th document carries the _id term "shared" (identifiers need not be unique: one _id posting list with hundreds or thousands of hits), the others a unique one
	CrossTerm    bool   // field "a" also lists term "zzlast" (its last term in byte order) in every second document, and the doc-value field "b" lists only that term: the first term of one field equals the last term of the field before it, with other cardinalities
	ALo, AHi     int    // AHi>0: field "a" occurs only in documents ALo <= i < AHi: a doc-value field (the first in field order) that ends, or starts, in the middle of the segment while others go on
	DenseExact   int    // >0: the dense term occurs in exactly the first DenseExact documents that have field "a" (an exact multiple of 1024: the boundary of the adaptive chunk-count formula)
}

func GenWide(t *rapid.T) WideParams {
	p := WideParams{N: rapid.SampledFrom([]int{600, 1023, 1024, 1025, 1100, 2047, 2048, 2049, 2500, 3100}).Draw(t, "N")}
	p.DenseSkip = rapid.SampledFrom([]int{0, 2, 3, 7, 50}).Draw(t, "denseSkip")
	if p.DenseSkip > 0 {
		p.DenseOff = rapid.IntRange(0, p.DenseSkip-1).Draw(t, "denseOff")
	}
	p.DenseLocs = rapid.SampledFrom([]int{0, 1, 5}).Draw(t, "denseLocs")
	p.SparsePer = rapid.SampledFrom([]int{1, 40, 700}).Draw(t, "sparsePer")
	p.NoFieldPer = rapid.SampledFrom([]int{0, 2, 9}).Draw(t, "noFieldPer")
	p.SecondDV = rapid.Bool().Draw(t, "secondDV")
	p.FreqMod = rapid.IntRange(1, 4).Draw(t, "freqMod")
	p.RepeatA = rapid.SampledFrom([]int{0, 0, 1, 2, 3}).Draw(t, "repeatA")
	p.DenseName = rapid.SampledFrom([]string{"dense", "dense", "dense2"}).Draw(t, "denseName")
	p.EmptyTermPer = rapid.SampledFrom([]int{0, 0, 2, 3, 40}).Draw(t, "emptyTermPer")
	if p.N > 1030 && rapid.Bool().Draw(t, "gapField") {
		p.GapField = rapid.SampledFrom([]int{1024, 1030, 2048, 2050, p.N - 2}).Draw(t, "gapStart")
		if p.GapField >= p.N {
			p.GapField = p.N - 2
		}
	}
	if p.GapField > 0 {
		p.CrossTerm = rapid.Bool().Draw(t, "crossTerm")
	}
	p.SharedID = rapid.SampledFrom([]int{0, 0, 0, 1, 2}).Draw(t, "sharedID")
	if p.N > 1030 && rapid.IntRange(0, 2).Draw(t, "aWindow") == 0 {
		p.ALo = rapid.SampledFrom([]int{0, 0, 200, 1024, 1030}).Draw(t, "aLo")
		p.AHi = rapid.SampledFrom([]int{250, 1024, 1100, 2048, p.N - 3}).Draw(t, "aHi")
		if p.AHi <= p.ALo {
			p.AHi = p.ALo + 50
		}
	}
	if p.N >= 1024 && rapid.IntRange(0, 3).Draw(t, "denseExact") == 0 {
		p.DenseExact = 1024 * rapid.IntRange(1, p.N/1024).Draw(t, "denseExactK")
	}
	return p
}

type widePlain WideParams

func (p WideParams) String() string { return fmt.Sprintf("wide%+v", widePlain(p)) }

func (p WideParams) Batch(sc *Scenario) Batch {
	b := make(Batch, p.N)
	dvA := sc.Schema["a"] != dvNever
	denseSoFar := 0
	for i := range b {
		if p.SharedID > 0 {
			id := "shared"
			if i%p.SharedID != 0 {
				id = fmt.Sprintf("id%06d", i)
			}
			b[i].Fields = append(b[i].Fields, Field{Name: "_id", Len: 1, Terms: []Term{{T: id, Freq: 1}}})
		}
		if p.GapField > 0 && (i == 3 || (i >= p.GapField && i%2 == 0)) {
			bt := fmt.Sprintf("g%d", i%7)
			if p.CrossTerm {
				bt = "zzlast"
			}
			b[i].Fields = append(b[i].Fields, Field{Name: "b", DV: sc.Schema["b"] != dvNever, Len: 1, Terms: []Term{{T: bt, Freq: 1}}})
		}
		if p.NoFieldPer > 0 && i%p.NoFieldPer == 1 {
			if p.SecondDV {
				b[i].Fields = append(b[i].Fields, Field{Name: "zz", DV: sc.Schema["zz"] != dvNever,
					Terms: []Term{{T: fmt.Sprintf("z%d", i%5), Freq: 1}}, Len: 1})
			}
			continue
		}
		if p.AHi > 0 && (i < p.ALo || i >= p.AHi) {
			continue
		}
		fa := Field{Name: "a", DV: dvA}
		hasDense := p.DenseSkip == 0 || i%p.DenseSkip != p.DenseOff
		if p.DenseExact > 0 {
			hasDense = denseSoFar < p.DenseExact
		}
		if hasDense {
			denseSoFar++
			dn := p.DenseName
			if dn == "" {
				dn = "dense"
			}
			tm := Term{T: dn, Freq: 1 + i%p.FreqMod}
			if p.DenseLocs > 0 && i%p.DenseLocs == 0 {
				tm.Locs = []Loc{{Field: "", Pos: i, Start: i * 3, End: i*3 + 5}}
			}
			fa.Terms = append(fa.Terms, tm)
			fa.Len += tm.Freq
		}
		if p.EmptyTermPer > 0 && i%p.EmptyTermPer == 1 {
			fa.Terms = append(fa.Terms, Term{T: "", Freq: 2})
			fa.Len += 2
		}
		if i%3 == 0 {
			tm := Term{T: fmt.Sprintf("s%d", i%p.SparsePer), Freq: 2}
			fa.Terms = append(fa.Terms, tm)
			fa.Len += 2
		}
		if p.CrossTerm && i%2 == 0 {
			fa.Terms = append(fa.Terms, Term{T: "zzlast", Freq: 1})
			fa.Len++
		}
		b[i].Fields = append(b[i].Fields, fa)
		if p.RepeatA > 0 && i%p.RepeatA == 0 && len(fa.Terms) > 0 && strings.HasPrefix(fa.Terms[0].T, "dense") {
			// a multi-valued field: the same term again in a second instance of the field
			b[i].Fields = append(b[i].Fields, Field{Name: "a", DV: dvA, Len: 1, Terms: []Term{{T: fa.Terms[0].T, Freq: 1}}})
		}
		if i%500 == 7 {
			b[i].Fields = append(b[i].Fields, Field{Name: "title", Store: true, Value: fmt.Sprintf("doc-%d", i)})
		}
	}
	return b
}

// CountsParams describes a batch built to reach the width boundaries of the
// per-field statistics: the number of documents carrying field "a" around
// 127/128 and 16383/16384 (1-, 2-, 3-byte varints) and a total term frequency
// around 2^(7k) (up to 9-byte varints) through one or two very frequent terms.
type CountsParams struct {
	N          int
	FieldEvery int     // field "a" in documents with i%FieldEvery==0
	HugeAt     []int   // documents whose field "a" also lists term "big"
	HugeFreq   []int64 // with these frequencies
	OtherField bool    // the remaining documents carry field "b"
	Instances  int     // >0: document 0 carries the field as this many separate instances (one term each): 255 / 256 / 257 / 512 / 1000
	ManyLocs   int     // >0: term "many" of field "a" has this many locations in document 0 (spread over two instances of the field) and one location in the last document: location counts around and beyond 2^16
	NameLen    int     // >1: the field is named "a" + padding up to this length (name lengths around 128: the width boundary of the name-length varint, and of any fixed-size window over a field record)
}

var hugeFreqs = []int64{1 << 7, 1<<14 - 1, 1 << 21, 1 << 28, 1<<35 - 1, 1 << 42, 1 << 49, 1<<56 - 1, 1 << 56, 1<<56 + 3, 1 << 60, 1<<61 - 1}

func GenCounts(t *rapid.T) CountsParams {
	p := CountsParams{N: rapid.SampledFrom([]int{1, 5, 126, 127, 128, 129, 130, 255, 256, 300, 16383, 16384, 16385, 16500}).Draw(t, "countsN")}
	p.FieldEvery = rapid.SampledFrom([]int{1, 1, 2}).Draw(t, "fieldEvery")
	nh := rapid.IntRange(0, 2).Draw(t, "nHuge")
	for i := 0; i < nh; i++ {
		p.HugeAt = append(p.HugeAt, rapid.IntRange(0, p.N-1).Draw(t, "hugeAt")/p.FieldEvery*p.FieldEvery)
		p.HugeFreq = append(p.HugeFreq, rapid.SampledFrom(hugeFreqs).Draw(t, "hugeFreq"))
	}
	p.OtherField = rapid.Bool().Draw(t, "otherField")
	p.ManyLocs = rapid.SampledFrom([]int{0, 0, 0, 255, 256, 65535, 65536, 70000}).Draw(t, "manyLocs")
	p.Instances = rapid.SampledFrom([]int{0, 0, 255, 256, 257, 512, 1000}).Draw(t, "instances")
	if rapid.Bool().Draw(t, "longName") {
		p.NameLen = rapid.SampledFrom([]int{100, 110, 113, 115, 118, 120, 121, 122, 123, 124, 125, 126, 127, 128, 129, 200, 255, 256, 257, 16383, 16384, 65535, 65536, 70005}).Draw(t, "nameLen")
	}
	return p
}

// FieldName is the name of the counted field.
func (p CountsParams) FieldName() string {
	if p.NameLen <= 1 {
		return "a"
	}
	return "a" + strings.Repeat("x", p.NameLen-1)
}

func (p CountsParams) String() string { return fmt.Sprintf("counts%+v", countsPlain(p)) }

type countsPlain CountsParams

func (p CountsParams) Batch(sc *Scenario) Batch {
	b := make(Batch, p.N)
	for i := range b {
		if i%p.FieldEvery != 0 {
			if p.OtherField {
				b[i].Fields = append(b[i].Fields, Field{Name: "b", Len: 1, Terms: []Term{{T: "o", Freq: 1}}})
			}
			continue
		}
		f := Field{Name: p.FieldName(), Len: 1, DV: sc.Schema["a"] == dvAlways, Terms: []Term{{T: fmt.Sprintf("t%d", i%3), Freq: 1}}}
		for k, at := range p.HugeAt {
			if at == i {
				f.Terms = append(f.Terms, Term{T: "big", Freq: int(p.HugeFreq[k])})
				f.Len += int(p.HugeFreq[k])
			}
		}
		b[i].Fields = append(b[i].Fields, f)
	}
	for k := 1; k < p.Instances; k++ { // document 0 already carries one instance
		b[0].Fields = append(b[0].Fields, Field{Name: p.FieldName(), Len: 1, DV: sc.Schema["a"] == dvAlways, Terms: []Term{{T: fmt.Sprintf("i%d", k%4), Freq: 1}}})
	}
	if p.ManyLocs > 0 {
		mk := func(n, base int) Field {
			tm := Term{T: "many", Freq: n, Locs: make([]Loc, n)}
			for j := range tm.Locs {
				tm.Locs[j] = Loc{Pos: base + j, Start: j % 100, End: j%100 + 1}
			}
			return Field{Name: p.FieldName(), Len: n, DV: sc.Schema["a"] == dvAlways, Terms: []Term{tm}}
		}
		half := p.ManyLocs / 2
		b[0].Fields = append(b[0].Fields, mk(half, 0), mk(p.ManyLocs-half, half))
		b[p.N-1].Fields = append(b[p.N-1].Fields, mk(1, 7))
	}
	return b
}

// DVGapsParams describes 1025..3100 documents with 2..4 doc-value fields, each
// present only in a few drawn document ranges: fields that end early, start
// late, skip whole 1024-document doc-value chunks or miss the last one, in
// every combination across the fields of one segment.
type DVGapField struct {
	Name   string
	Ranges [][2]int // [lo,hi)
	Step   int
}

type DVGapsParams struct {
	N      int
	Fields []DVGapField
	Tail   bool // every document also carries the DV-less field "zzz" with two terms in every document: the last term of the last field has N hits and no doc values follow it
}

func GenDVGaps(t *rapid.T) DVGapsParams {
	p := DVGapsParams{N: rapid.SampledFrom([]int{1025, 1100, 2048, 2049, 2500, 3072, 3073, 3100}).Draw(t, "dvN")}
	names := []string{"a", "b", "title", "zz"}
	nf := rapid.IntRange(2, 4).Draw(t, "dvFields")
	first := rapid.IntRange(0, len(names)-nf).Draw(t, "dvFirstName")
	bounds := []int{0, 3, 200, 250, 1023, 1024, 1025, 1100, 2047, 2048, 2049, 2100, 3071, 3072, p.N - 1, p.N}
	for k := 0; k < nf; k++ {
		f := DVGapField{Name: names[first+k], Step: rapid.SampledFrom([]int{1, 1, 2, 7}).Draw(t, "dvStep")}
		nr := rapid.IntRange(1, 3).Draw(t, "dvRanges")
		for r := 0; r < nr; r++ {
			lo := rapid.SampledFrom(bounds).Draw(t, "dvLo")
			ln := rapid.SampledFrom([]int{1, 1, 2, 50, 1024, 1100, 4000}).Draw(t, "dvLen")
			if lo >= p.N {
				lo = p.N - 1
			}
			hi := lo + ln
			if hi > p.N {
				hi = p.N
			}
			f.Ranges = append(f.Ranges, [2]int{lo, hi})
		}
		if k == nf-1 && rapid.Bool().Draw(t, "dvLastDense") {
			// the last field in field order present throughout: chunks of it are flushed while earlier inputs of a merge are still being read
			f.Ranges = [][2]int{{0, p.N}}
		}
		p.Fields = append(p.Fields, f)
	}
	return p
}

func (p DVGapsParams) String() string { return fmt.Sprintf("dvgaps%+v", dvGapsPlain(p)) }

type dvGapsPlain DVGapsParams

func (p DVGapsParams) Batch(sc *Scenario) Batch {
	b := make(Batch, p.N)
	for _, f := range p.Fields {
		seen := map[int]bool{}
		for _, r := range f.Ranges {
			for i := r[0]; i < r[1]; i += f.Step {
				if seen[i] {
					continue
				}
				seen[i] = true
				fd := Field{Name: f.Name, DV: true, Len: 2, Terms: []Term{{T: "common", Freq: 1}, {T: fmt.Sprintf("%s%d", f.Name, i%11), Freq: 1}}}
				if i%3 == 0 {
					fd.Terms, fd.Len = fd.Terms[1:], 1
				}
				b[i].Fields = append(b[i].Fields, fd)
			}
		}
	}
	if p.Tail {
		for i := range b {
			b[i].Fields = append(b[i].Fields, Field{Name: "zzz", Len: 2, Terms: []Term{{T: "first", Freq: 1}, {T: "zzzlast", Freq: 1}}})
		}
	}
	return b
}

// SparseParams describes thousands of (mostly empty) documents for the tiny
// fixed chunk sizes: posting lists whose chunk tables have thousands of
// entries (numDocs / chunkSize well beyond 4096 or 65536), few of them used.
type SparseParams struct {
	N    int
	Hits []int // documents carrying term "hit" (field "a"), ascending
	Locs bool
	IDs  bool // every 512th document has an _id term
}

var SparseModes = []uint32{1, 2, 2, 3, 5, 16}

func GenSparse(t *rapid.T) SparseParams {
	p := SparseParams{N: rapid.SampledFrom([]int{4096, 4097, 4100, 8193, 9000, 12289, 20481, 66000, 131075, 131080, 131080, 140000, 140000, 196700, 262200}).Draw(t, "sparseN")}
	seen := map[int]bool{}
	add1 := func(d int) {
		if d >= 0 && d < p.N && !seen[d] {
			seen[d] = true
			p.Hits = append(p.Hits, d)
		}
	}
	add := func(d int) {
		add1(d)
		if rapid.Bool().Draw(t, "hitPair") {
			add1(d ^ 1) // its neighbour inside the same chunk of size 2 (and of every larger even size)
		}
	}
	add(rapid.IntRange(0, 3).Draw(t, "firstHit"))
	// two neighbouring documents near the end: one chunk (of any even size) with two postings, in the highest-numbered chunks
	tail := p.N - 1 - rapid.IntRange(0, 5).Draw(t, "tailHit")
	add1(tail)
	add1(tail ^ 1)
	nh := rapid.IntRange(2, 9).Draw(t, "nHits")
	for i := 0; i < nh; i++ {
		switch rapid.IntRange(0, 2).Draw(t, "hitKind") {
		case 0:
			add(rapid.IntRange(0, p.N-1).Draw(t, "hitAny"))
		case 1:
			add(p.N - 1 - rapid.IntRange(0, 5).Draw(t, "hitFromEnd"))
		default:
			add(rapid.SampledFrom([]int{4095, 4096, 4097, 8191, 8192, 8193, 65535, 65536, 131071, 131072, 131074, 262143}).Draw(t, "hitBoundary") + rapid.IntRange(-1, 1).Draw(t, "hitJitter"))
		}
	}
	sort.Ints(p.Hits)
	p.Locs = rapid.Bool().Draw(t, "sparseLocs")
	p.IDs = rapid.Bool().Draw(t, "sparseIDs")
	return p
}

func (p SparseParams) String() string { return fmt.Sprintf("sparse%+v", sparsePlain(p)) }

type sparsePlain SparseParams

func (p SparseParams) Batch(sc *Scenario) Batch {
	b := make(Batch, p.N)
	for k, d := range p.Hits {
		tm := Term{T: "hit", Freq: 1 + k%3}
		if p.Locs {
			tm.Locs = []Loc{{Pos: d, Start: k, End: k + 3}}
		}
		f := Field{Name: "a", Len: tm.Freq, DV: sc.Schema["a"] == dvAlways, Terms: []Term{tm}}
		if k%2 == 1 {
			f.Terms = append(f.Terms, Term{T: fmt.Sprintf("u%d", k), Freq: 1})
			f.Len++
		}
		if k%4 == 0 {
			f.Store, f.Value = true, fmt.Sprintf("stored-%d", d)
		}
		b[d].Fields = append(b[d].Fields, f)
	}
	if p.IDs {
		for d := 0; d < p.N; d += 512 {
			b[d].Fields = append(b[d].Fields, Field{Name: "_id", Len: 1, Terms: []Term{{T: fmt.Sprintf("id%06d", d), Freq: 1}}})
		}
	}
	return b
}

// ---- deletion bitmaps ----

// GenDrops draws a deletion bitmap for a segment of n documents from the four
// classes nil / empty / partial / everything.
func GenDrops(t *rapid.T, n int, label string) *roaring.Bitmap {
	k := rapid.SampledFrom([]int{0, 1, 2, 2, 2, 3, 4}).Draw(t, label+":dropKind")
	switch k {
	case 4: // a handful of single documents
		bm := roaring.New()
		for i := rapid.IntRange(1, 3).Draw(t, label+":dropFew"); i > 0 && n > 0; i-- {
			bm.Add(uint32(rapid.IntRange(0, n-1).Draw(t, label+":dropOne")))
		}
		return bm
	case 0:
		return nil
	case 1:
		return roaring.New()
	case 3:
		bm := roaring.New()
		if n > 0 {
			bm.AddRange(0, uint64(n))
		}
		return bm
	}
	bm := roaring.New()
	if n == 0 {
		return bm
	}
	if n <= 16 {
		mask := rapid.IntRange(0, 1<<n-1).Draw(t, label+":dropMask")
		for i := 0; i < n; i++ {
			if mask&(1<<i) != 0 {
				bm.Add(uint32(i))
			}
		}
		return bm
	}
	// large segments: periodic pattern plus a drawn range
	per := rapid.IntRange(2, 9).Draw(t, label+":dropPer")
	off := rapid.IntRange(0, per-1).Draw(t, label+":dropOff")
	for i := off; i < n; i += per {
		bm.Add(uint32(i))
	}
	lo := rapid.IntRange(0, n-1).Draw(t, label+":dropLo")
	hi := rapid.IntRange(lo, n).Draw(t, label+":dropHi")
	if rapid.Bool().Draw(t, label+":dropRange") {
		bm.AddRange(uint64(lo), uint64(hi))
	}
	return bm
}

func bmString(bm *roaring.Bitmap) string {
	if bm == nil {
		return "nil"
	}
	if bm.GetCardinality() > 40 {
		return fmt.Sprintf("{%d docs, min %d max %d}", bm.GetCardinality(), bm.Minimum(), bm.Maximum())
	}
	return bm.String()
}

func sortedKeys(m map[string][]XPosting) []string {
	var ks []string
	for k := range m {
		ks = append(ks, k)
	}
	sort.Strings(ks)
	return ks
}

// genPostingBatch draws a batch focused on one posting list: term "t" of
// field "a" occurs in most documents, with drawn frequencies and locations.
func genPostingBatch(t *rapid.T, sc *Scenario) Batch {
	n := rapid.IntRange(1, 28).Draw(t, "nDocs")
	b := make(Batch, n)
	withB := rapid.Bool().Draw(t, "withB")
	for i := range b {
		kind := rapid.IntRange(0, 9).Draw(t, "docKind")
		if kind == 0 {
			continue // empty document
		}
		f := Field{Name: "a", DV: sc.Schema["a"] == dvAlways}
		if kind >= 2 {
			tm := Term{T: "t"}
			nl := rapid.SampledFrom([]int{0, 0, 1, 1, 2, 4}).Draw(t, "nLocs")
			for l := 0; l < nl; l++ {
				lf := ""
				if withB && rapid.Bool().Draw(t, "locB") {
					lf = "b"
				}
				tm.Locs = append(tm.Locs, Loc{Field: lf, Pos: rapid.SampledFrom(posVals).Draw(t, "pos"), Start: i, End: i + l})
			}
			tm.Freq = nl + rapid.SampledFrom([]int{0, 0, 1, 1, 3}).Draw(t, "xf")
			if tm.Freq == 0 {
				tm.Freq = 1
			}
			f.Terms = append(f.Terms, tm)
			f.Len += tm.Freq
		}
		if kind%2 == 1 {
			f.Terms = append(f.Terms, Term{T: fmt.Sprintf("u%d", i%3), Freq: 1})
			f.Len++
		}
		if kind == 1 || kind == 5 { // a term unique to this document: 1-hit encoded by a merge
			f.Terms = append(f.Terms, Term{T: fmt.Sprintf("only%02d", i), Freq: 1})
			f.Len++
		}
		b[i].Fields = append(b[i].Fields, f)
		if withB && kind%3 == 0 {
			b[i].Fields = append(b[i].Fields, Field{Name: "b", Len: 1, Terms: []Term{{T: "t", Freq: 1}}})
		}
	}
	fixLocFields(b)
	return b
}

// manyTermsBatch: one field with 60..600 distinct terms sharing suffixes (a
// term dictionary big enough for the FST builder's node cache to matter).
func manyTermsBatch(t *rapid.T, label string) Batch {
	k := rapid.SampledFrom([]int{60, 200, 600}).Draw(t, label+":nTerms")
	nd := rapid.IntRange(1, 4).Draw(t, label+":nDocs")
	b := make(Batch, nd)
	for d := range b {
		f := Field{Name: "a"}
		for i := 0; i < k; i++ {
			f.Terms = append(f.Terms, Term{T: fmt.Sprintf("w%03d-%d-commonsuffix", i, d%2), Freq: 1})
			f.Len++
		}
		b[d].Fields = []Field{f}
	}
	return b
}
