package harness

import (
	"bufio"
	"bytes"
	"errors"
	"fmt"
	"io"
	"runtime"
	"sort"
	"testing"

	"github.com/RoaringBitmap/roaring"
	segment "github.com/blugelabs/bluge_segment_api"
	ice "github.com/blugelabs/ice/v2"
	"pgregory.net/rapid"
)

// C12 — a failing writer or a cancelled merge never yields silent success.
const c12Rule = "case = persist or merge workload (small and 128-document-block families; built / memory-loaded / file-loaded inputs; merge buffer size from {1,2,7,64,4096,0}); " +
	"inside each case EVERY byte offset k in [0,len(file)) is injected as 'writer accepts exactly k bytes then fails forever' and as 'the one Write call crossing byte k fails, later calls succeed' (Segment.WriteTo and Merger.WriteTo must return a non-nil error) and EVERY k in [0,len] as " +
	"'close channel closed when the k-th byte reaches the writer' (result must be ErrClosed, or nil with the complete fault-free file and the right byte count); files > 8 KiB (block family: > 2 KiB): exhaustive within 64 bytes of " +
	"every section/flush boundary, every 29th offset elsewhere (files > 60 KB: ~2000 evenly spread offsets; files > 256 KB: ~60 plus the section boundaries); non-trivial = file spans >=2 buffer flushes and the fault lands strictly inside; distinct = hash of the workload text"

// offsetsToTry returns the fault offsets for a file: all of them for small
// files, boundary neighbourhoods + a stride for large ones.
var exhaustiveLimit = 8192

func offsetsToTry(good []byte, bufSize int, upTo int) ([]int, bool) {
	if len(good) <= exhaustiveLimit {
		rv := make([]int, 0, upTo)
		for k := 0; k < upTo; k++ {
			rv = append(rv, k)
		}
		return rv, true
	}
	set := map[int]bool{}
	radius := 64
	if len(good) > 1<<18 {
		radius = 3 // multi-megabyte files: every fault costs a multi-megabyte write
	}
	near := func(c int) {
		for k := c - radius; k <= c+radius; k++ {
			if k >= 0 && k < upTo {
				set[k] = true
			}
		}
	}
	near(0)
	near(len(good))
	if f, err := parseFooterIndependent(good); err == nil {
		near(int(f.storedIdx))
		near(int(f.fieldsIdx))
		if f.dvOffset < uint64(len(good)) {
			near(int(f.dvOffset))
		}
		near(len(good) - footerSize)
	}
	if bufSize <= 0 {
		bufSize = 4096
	}
	if bufSize >= 64 && len(good) <= 1<<18 {
		for b := bufSize; b < len(good); b += bufSize {
			near(b)
		}
	}
	stride := 29
	if upTo > 60000 {
		stride = upTo/2000 | 1 // ~2000 evenly spread offsets
	}
	if len(good) > 1<<18 {
		stride = upTo/60 | 1 // multi-megabyte files: ~60 evenly spread offsets plus the section boundaries
	}
	for k := 0; k < upTo; k += stride {
		set[k] = true
	}
	rv := make([]int, 0, len(set))
	for k := range set {
		rv = append(rv, k)
	}
	sort.Ints(rv)
	return rv, false
}

func c12Prop(st *CaseStats, fam int) func(t *rapid.T) {
	return func(t *rapid.T) {
		ctx := &Ctx{}
		defer ctx.Close()
		sc := GenScenario(t)
		cfg := CaseCfg{Family: fam, MaxDocs: 5, MaxIn: 2, HoldAny: true, NoBig: true}
		nIn := rapid.IntRange(1, 3).Draw(t, "nIn")
		if fam != FamSmall {
			nIn = rapid.IntRange(1, 2).Draw(t, "nInBig")
			cfg.HoldAny = false // memory-backed only: the block family is about many flushes, not storage
		}
		ins := make([]*SegCase, nIn)
		segs := make([]segment.Segment, nIn)
		drops := make([]*roaring.Bitmap, nIn)
		desc := sc.String()
		for i := range ins {
			var err error
			ins[i], err = GenCase(t, ctx, sc, cfg, rapid.SampledFrom([]int{0, 0, 1}).Draw(t, "depth"), fmt.Sprintf("i%d", i))
			if err != nil {
				t.Fatalf("%s: %v", sc, err)
			}
			segs[i] = ins[i].Seg
			drops[i] = GenDrops(t, ins[i].Exp.N, fmt.Sprintf("i%d", i))
			desc += fmt.Sprintf(" IN%d=%s drop=%s", i, ins[i].Desc, bmString(drops[i]))
		}
		bufSize := rapid.SampledFrom([]int{1, 2, 7, 44, 64, 1024, 4095, 4096, 0}).Draw(t, "bufSize")
		desc += fmt.Sprintf(" mergeBuf=%d", bufSize)
		inner := 0
		exhaustive := true

		// --- Segment.WriteTo with a failing writer ---
		for i, in := range ins {
			good, err := Persist(in.Seg)
			if err != nil {
				t.Fatalf("%s: %v", desc, err)
			}
			offs, ex := offsetsToTry(good, 4096, len(good))
			exhaustive = exhaustive && ex
			for _, k := range offs {
				w := &failAfter{k: k}
				var n int64
				err := safely("Segment.WriteTo(failing writer)", func() error {
					var e error
					n, e = in.Seg.WriteTo(w, nil)
					return e
				})
				inner++
				if err == nil {
					t.Fatalf("%s:\n  Segment.WriteTo of IN%d reported success (n=%d) although the writer failed after %d of %d bytes", desc, i, n, k, len(good))
				}
				if isPanic(err) {
					t.Fatalf("%s:\n  Segment.WriteTo of IN%d, writer failing after %d bytes: %v", desc, i, k, err)
				}
				// transient failure: one Write call fails, later ones succeed again
				w1 := &failOnce{k: k}
				err = safely("Segment.WriteTo(transiently failing writer)", func() error {
					var e error
					n, e = in.Seg.WriteTo(w1, nil)
					return e
				})
				inner++
				if err == nil {
					t.Fatalf("%s:\n  Segment.WriteTo of IN%d reported success (n=%d) although one Write call of the writer failed at byte %d of %d", desc, i, n, k, len(good))
				}
				// the same, the failing call reporting the full byte count together with its error
				if k%4 == 1 || k >= len(good)-64 {
					for _, fw := range []io.Writer{&flushyFailOnce{failOnce{k: k}}, &flushyFailAfter{failAfter{k: k}}} {
						err = safely("Segment.WriteTo(failing writer with a Flush method)", func() error {
							var e error
							n, e = in.Seg.WriteTo(fw, nil)
							return e
						})
						inner++
						if err == nil {
							t.Fatalf("%s:\n  Segment.WriteTo of IN%d reported success (n=%d) although the writer (%T, which has a Flush method) failed at byte %d of %d", desc, i, n, fw, k, len(good))
						}
					}
				}
				if k%4 != 0 && k < len(good)-64 {
					continue
				}
				w2 := &failOnce{k: k, full: true}
				err = safely("Segment.WriteTo(writer failing with a full count)", func() error {
					var e error
					n, e = in.Seg.WriteTo(w2, nil)
					return e
				})
				inner++
				if err == nil {
					t.Fatalf("%s:\n  Segment.WriteTo of IN%d reported success (n=%d) although the Write call crossing byte %d of %d returned an error (together with the full byte count)", desc, i, n, k, len(good))
				}
			}
		}

		// --- Merger.WriteTo ---
		var goodBuf bytes.Buffer
		m := ice.Merge(segs, drops, bufSize)
		gn, err := m.WriteTo(&goodBuf, nil)
		if err != nil {
			t.Fatalf("%s: fault-free merge: %v", desc, err)
		}
		good := goodBuf.Bytes()
		if gn != int64(len(good)) {
			t.Fatalf("%s: fault-free merge returned %d, wrote %d", desc, gn, len(good))
		}
		// the fault-free file is a complete one: it loads, holds the survivors and its CRC covers it
		{
			gs, err := LoadMem(good)
			if err != nil {
				t.Fatalf("%s:\n  the file of the fault-free merge (buffer %d) does not load: %v", desc, bufSize, err)
			}
			want := 0
			for i, in := range ins {
				want += in.Exp.N
				if drops[i] != nil {
					want -= int(drops[i].GetCardinality())
				}
			}
			if int(gs.Count()) != want {
				t.Fatalf("%s:\n  the fault-free merge holds %d documents, expected %d", desc, gs.Count(), want)
			}
			if err := checkFile("fault-free Merger.WriteTo", good, gs, 1025); err != nil {
				t.Fatalf("%s:\n  %v", desc, err)
			}
		}
		offs, ex := offsetsToTry(good, bufSize, len(good))
		exhaustive = exhaustive && ex
		for _, k := range offs {
			w := &failAfter{k: k}
			var n int64
			err := safely("Merger.WriteTo(failing writer)", func() error {
				var e error
				n, e = ice.Merge(segs, drops, bufSize).WriteTo(w, nil)
				return e
			})
			inner++
			if err == nil {
				t.Fatalf("%s:\n  Merger.WriteTo reported success (n=%d) although the writer failed after %d of %d bytes", desc, n, k, len(good))
			}
			if isPanic(err) {
				t.Fatalf("%s:\n  Merger.WriteTo, writer failing after %d bytes: %v", desc, k, err)
			}
			w1 := &failOnce{k: k}
			err = safely("Merger.WriteTo(transiently failing writer)", func() error {
				var e error
				n, e = ice.Merge(segs, drops, bufSize).WriteTo(w1, nil)
				return e
			})
			inner++
			if err == nil {
				t.Fatalf("%s:\n  Merger.WriteTo reported success (n=%d) although one Write call of the writer failed at byte %d of %d", desc, n, k, len(good))
			}
			if k%4 == 1 || k >= len(good)-64 {
				// destinations that also have a Flush method (which reports no error of its own)
				for _, fw := range []io.Writer{&flushyFailOnce{failOnce{k: k}}, &flushyFailAfter{failAfter{k: k}}} {
					err = safely("Merger.WriteTo(failing writer with a Flush method)", func() error {
						var e error
						n, e = ice.Merge(segs, drops, bufSize).WriteTo(fw, nil)
						return e
					})
					inner++
					if err == nil {
						t.Fatalf("%s:\n  Merger.WriteTo reported success (n=%d) although the writer (%T, which has a Flush method) failed at byte %d of %d", desc, n, fw, k, len(good))
					}
				}
			}
			if k%4 != 0 && k < len(good)-64 {
				continue
			}
			w2 := &failOnce{k: k, full: true}
			err = safely("Merger.WriteTo(writer failing with a full count)", func() error {
				var e error
				n, e = ice.Merge(segs, drops, bufSize).WriteTo(w2, nil)
				return e
			})
			inner++
			if err == nil {
				t.Fatalf("%s:\n  Merger.WriteTo reported success (n=%d) although the Write call crossing byte %d of %d returned an error (together with the full byte count)", desc, n, k, len(good))
			}
		}
		// --- the destination is the caller's own *bufio.Writer (smaller / larger than the merge buffer) ---
		for _, ownSize := range []int{16, 4096, 1 << 16} {
			var dst bytes.Buffer
			own := bufio.NewWriterSize(&dst, ownSize)
			var n int64
			err := safely("Merger.WriteTo(bufio destination)", func() error {
				var e error
				n, e = ice.Merge(segs, drops, bufSize).WriteTo(own, nil)
				return e
			})
			inner++
			if err != nil {
				t.Fatalf("%s:\n  merge into a healthy bufio.Writer(%d): %v", desc, ownSize, err)
			}
			if err := own.Flush(); err != nil {
				t.Fatalf("%s: %v", desc, err)
			}
			if n != int64(len(good)) || !bytes.Equal(dst.Bytes(), good) {
				t.Fatalf("%s:\n  merge into the caller's bufio.Writer(%d) reported success (n=%d) but after the owner's Flush the destination holds %d of %d bytes", desc, ownSize, n, dst.Len(), len(good))
			}
		}
		// --- the caller keeps ONE bufio.Writer for several files (no Reset in between), and merges into other
		// destinations in between: every file must arrive, completely, at the destination it was written to ---
		{
			var sink, other bytes.Buffer
			own := bufio.NewWriterSize(&sink, 1<<16)
			// whatever the library pools between merges starts empty here (two GCs empty every sync.Pool), and
			// the merges use a buffer size no earlier merge of this process used
			runtime.GC()
			runtime.GC()
			keptBuf := 4096 + 8*len(segs)
			for round := 0; round < 3; round++ {
				var n int64
				err := safely("Merger.WriteTo(kept bufio destination)", func() error {
					var e error
					n, e = ice.Merge(segs, drops, keptBuf).WriteTo(own, nil)
					return e
				})
				inner++
				if err == nil {
					err = own.Flush()
				}
				if err != nil {
					t.Fatalf("%s:\n  merge #%d into the caller's kept bufio.Writer: %v", desc, round, err)
				}
				if n != int64(len(good)) || sink.Len() != (round+1)*len(good) || !bytes.Equal(sink.Bytes()[round*len(good):], good) {
					t.Fatalf("%s:\n  merge #%d into the caller's kept bufio.Writer returned %d; its sink now holds %d bytes, expected %d (%d files of %d bytes); another destination used in between holds %d bytes",
						desc, round, n, sink.Len(), (round+1)*len(good), round+1, len(good), other.Len())
				}
				// a merge to an unrelated destination in between
				before := other.Len()
				if _, err := ice.Merge(segs, drops, keptBuf).WriteTo(&other, nil); err != nil {
					t.Fatalf("%s: %v", desc, err)
				}
				inner++
				if other.Len()-before != len(good) || !bytes.Equal(other.Bytes()[before:], good) {
					t.Fatalf("%s:\n  a merge into a plain buffer after merges into a kept bufio.Writer wrote %d bytes, expected %d", desc, other.Len()-before, len(good))
				}
			}
		}
		// --- close channel closed at every point ---
		offs, ex = offsetsToTry(good, bufSize, len(good)+1)
		exhaustive = exhaustive && ex
		nClosed, nComplete := 0, 0
		{
			// the close channel is already closed when the merge starts
			ch := make(chan struct{})
			close(ch)
			var buf bytes.Buffer
			var n int64
			err := safely("Merger.WriteTo(closed channel)", func() error {
				var e error
				n, e = ice.Merge(segs, drops, bufSize).WriteTo(&buf, ch)
				return e
			})
			inner++
			if err == nil && (!bytes.Equal(buf.Bytes(), good) || n != int64(len(good))) {
				t.Fatalf("%s:\n  merge with an already closed close channel reported success (n=%d) but wrote %d of %d bytes", desc, n, buf.Len(), len(good))
			}
			if isPanic(err) {
				t.Fatalf("%s:\n  merge with an already closed close channel: %v", desc, err)
			}
		}
		for _, k := range offs {
			w := &closeAt{k: k, ch: make(chan struct{})}
			var n int64
			mg := ice.Merge(segs, drops, bufSize)
			err := safely("Merger.WriteTo(close channel)", func() error {
				var e error
				n, e = mg.WriteTo(w, w.ch)
				return e
			})
			inner++
			switch {
			case err == nil:
				if !bytes.Equal(w.buf.Bytes(), good) || n != int64(len(good)) {
					t.Fatalf("%s:\n  merge with the close channel closed at byte %d reported success (n=%d) but wrote %d bytes; the complete file has %d bytes (first difference at %d)",
						desc, k, n, w.buf.Len(), len(good), firstDiff(w.buf.Bytes(), good))
				}
				nComplete++
			case errors.Is(err, segment.ErrClosed):
				nClosed++
				if k%5 == 0 {
					// the caller retries with the SAME Merger object and the same (emptied) destination
					w.buf.Reset()
					var n2 int64
					err2 := safely("Merger.WriteTo(retry after cancellation)", func() error {
						var e error
						n2, e = mg.WriteTo(w, nil)
						return e
					})
					inner++
					if err2 != nil {
						t.Fatalf("%s:\n  retrying the cancelled merge (closed at byte %d) with the same Merger: %v", desc, k, err2)
					}
					if n2 != int64(len(good)) || !bytes.Equal(w.buf.Bytes(), good) {
						t.Fatalf("%s:\n  retrying the cancelled merge (closed at byte %d) with the same Merger and destination returned %d and wrote %d bytes; the complete file has %d bytes (first difference at %d)",
							desc, k, n2, w.buf.Len(), len(good), firstDiff(w.buf.Bytes(), good))
					}
				}
			case isPanic(err):
				t.Fatalf("%s:\n  merge with the close channel closed at byte %d: %v", desc, k, err)
			default:
				// any other error is not silent success
			}
		}
		st.AddInner(inner)
		labels := []string{fmt.Sprintf("buf=%d", bufSize)}
		if exhaustive {
			labels = append(labels, "offsets-exhaustive")
		} else {
			labels = append(labels, "offsets-boundaries+stride")
		}
		st.Label("closed-outcomes", nClosed)
		st.Label("complete-outcomes", nComplete)
		flushSize := bufSize
		if flushSize <= 0 {
			flushSize = 4096
		}
		nt := len(good) >= 2*flushSize
		st.Record(desc, nt, labels...)
	}
}

func isPanic(err error) bool {
	return err != nil && len(err.Error()) > 8 && err.Error()[:8] == "PANIC in"
}

func TestC12Small(t *testing.T) {
	st := NewStats("C12Small", c12Rule)
	defer st.Flush()
	rapid.Check(t, c12Prop(st, FamSmall))
}

func TestC12Blocks(t *testing.T) {
	st := NewStats("C12Blocks", c12Rule)
	defer st.Flush()
	exhaustiveLimit = 2048
	rapid.Check(t, c12Prop(st, FamBlocks))
}

// ---- >1024-document merges: faults and cancellations enumerated per Write call ----

const c12WideRule = "case = public merge of a >1024-document input (2..4 doc-value fields present in drawn ranges only) and a second input (small or again >1024 documents), drops drawn, merge buffer from {16,64,1024}; " +
	"the fault-free run records where every Write call of the destination ends; then for EVERY Write call c (<= 400 calls, else every call within 2 of a write of >= 64 bytes, ~120 evenly spaced other calls and the last 80; half of the inputs end in a DV-less field whose two terms are in every document): the close channel is closed during call c " +
	"(result must be ErrClosed, or nil with the complete fault-free file), and (for every write of >= 64 bytes and every 8th other call) the writer fails forever from call c on, and fails only call c (both must yield a non-nil error); " +
	"non-trivial = >= 2 doc-value chunks of one field written and a cancellation observed between them (both outcomes, closed and complete, occur in the case); distinct = hash of the workload text"

type recordingWriter struct {
	ends []int
	n    int
}

func (w *recordingWriter) Write(p []byte) (int, error) {
	w.n += len(p)
	w.ends = append(w.ends, w.n)
	return len(p), nil
}

func c12WideProp(st *CaseStats) func(t *rapid.T) {
	return func(t *rapid.T) {
		ctx := &Ctx{}
		defer ctx.Close()
		sc := GenScenario(t)
		nIn := 2
		ins := make([]*SegCase, nIn)
		segs := make([]segment.Segment, nIn)
		drops := make([]*roaring.Bitmap, nIn)
		desc := sc.String()
		bigSecond := rapid.IntRange(0, 2).Draw(t, "bigSecond") > 0
		for i := range ins {
			fam := FamDVGaps
			if i == 1 && !bigSecond {
				fam = FamSmall
			}
			var err error
			ins[i], err = GenLeaf(t, ctx, sc, CaseCfg{Family: fam, MaxDocs: 6, TailField: true}, fmt.Sprintf("i%d", i))
			if err != nil {
				t.Fatalf("%s: %v", sc, err)
			}
			if err := ins[i].reload(ctx, holdMem); err != nil {
				t.Fatalf("%s: %v", sc, err)
			}
			segs[i] = ins[i].Seg
			drops[i] = GenDrops(t, ins[i].Exp.N, fmt.Sprintf("i%d", i))
			if i == 0 && rapid.Bool().Draw(t, "keepAllOfFirst") {
				drops[i] = nil
			}
			desc += fmt.Sprintf(" IN%d=%s drop=%s", i, ins[i].Desc, bmString(drops[i]))
		}
		if rapid.Bool().Draw(t, "smallFirst") {
			ins[0], ins[1], segs[0], segs[1], drops[0], drops[1] = ins[1], ins[0], segs[1], segs[0], drops[1], drops[0]
			desc += " (inputs swapped)"
		}
		bufSize := rapid.SampledFrom([]int{16, 64, 1024}).Draw(t, "bufSize")
		desc += fmt.Sprintf(" mergeBuf=%d", bufSize)
		var goodBuf bytes.Buffer
		gn, err := ice.Merge(segs, drops, bufSize).WriteTo(&goodBuf, nil)
		if err != nil {
			t.Fatalf("%s: fault-free merge: %v", desc, err)
		}
		good := goodBuf.Bytes()
		if gn != int64(len(good)) {
			t.Fatalf("%s: fault-free merge returned %d, wrote %d", desc, gn, len(good))
		}
		rec := &recordingWriter{}
		if _, err := ice.Merge(segs, drops, bufSize).WriteTo(rec, nil); err != nil || rec.n != len(good) {
			t.Fatalf("%s: recording run: %v (%d of %d bytes)", desc, err, rec.n, len(good))
		}
		// the Write calls to attack
		calls := map[int]bool{}
		if len(rec.ends) <= 400 {
			for c := range rec.ends {
				calls[c] = true
			}
		} else {
			prev := 0
			for c, e := range rec.ends {
				if e-prev >= 64 {
					for d := -2; d <= 2; d++ {
						if c+d >= 0 && c+d < len(rec.ends) {
							calls[c+d] = true
						}
					}
				}
				prev = e
			}
			// plus ~120 evenly spaced calls and the last 80
			step := len(rec.ends)/120 + 1
			for c := 0; c < len(rec.ends); c += step {
				calls[c] = true
			}
			for c := len(rec.ends) - 80; c < len(rec.ends); c++ {
				if c >= 0 {
					calls[c] = true
				}
			}
		}
		order := make([]int, 0, len(calls))
		for c := range calls {
			order = append(order, c)
		}
		sort.Ints(order)
		inner, nClosed, nComplete := 0, 0, 0
		for _, c := range order {
			start := 0
			if c > 0 {
				start = rec.ends[c-1]
			}
			// the close channel closed while call c is being written
			w := &closeAt{k: start + 1, ch: make(chan struct{})}
			var n int64
			err := safely("Merger.WriteTo(close channel)", func() error {
				var e error
				n, e = ice.Merge(segs, drops, bufSize).WriteTo(w, w.ch)
				return e
			})
			inner++
			switch {
			case err == nil:
				if !bytes.Equal(w.buf.Bytes(), good) || n != int64(len(good)) {
					t.Fatalf("%s:\n  merge with the close channel closed during Write call %d (bytes %d..%d) reported success (n=%d) but wrote %d bytes; the complete file has %d bytes (first difference at %d)",
						desc, c, start, rec.ends[c], n, w.buf.Len(), len(good), firstDiff(w.buf.Bytes(), good))
				}
				nComplete++
			case errors.Is(err, segment.ErrClosed):
				nClosed++
			case isPanic(err):
				t.Fatalf("%s:\n  merge with the close channel closed during Write call %d: %v", desc, c, err)
			}
			// the writer failing from this call on / only in this call (every large write, every 8th small one)
			if rec.ends[c]-start < 64 && c%8 != 0 {
				continue
			}
			for _, fw := range []interface {
				Write([]byte) (int, error)
			}{&failAfter{k: start}, &failOnce{k: start}} {
				err := safely("Merger.WriteTo(failing writer)", func() error {
					var e error
					n, e = ice.Merge(segs, drops, bufSize).WriteTo(fw, nil)
					return e
				})
				inner++
				if err == nil {
					t.Fatalf("%s:\n  Merger.WriteTo reported success (n=%d) although the writer (%T) failed in Write call %d at byte %d of %d", desc, n, fw, c, start, len(good))
				}
				if isPanic(err) {
					t.Fatalf("%s:\n  Merger.WriteTo, writer (%T) failing in Write call %d: %v", desc, fw, c, err)
				}
			}
		}
		st.AddInner(inner)
		st.Label("closed-outcomes", nClosed)
		st.Label("complete-outcomes", nComplete)
		labels := []string{fmt.Sprintf("buf=%d", bufSize)}
		if len(rec.ends) <= 400 {
			labels = append(labels, "write-calls-exhaustive")
		} else {
			labels = append(labels, "write-calls-sampled")
		}
		st.Record(desc, nClosed > 0 && nComplete > 0, labels...)
	}
}

func TestC12Wide(t *testing.T) {
	st := NewStats("C12Wide", c12WideRule)
	defer st.Flush()
	rapid.Check(t, c12WideProp(st))
}

// a second, independently seeded instance (the driver runs tests as parallel processes)
func TestC12WideB(t *testing.T) {
	st := NewStats("C12WideB", c12WideRule)
	defer st.Flush()
	rapid.Check(t, c12WideProp(st))
}

// ---- > 16 MiB files: faults at power-of-two offsets ----

const c12GiantRule = "case = a segment with a data section of 17..34 MiB (persisted built and loaded) and the single-input merge of it; write faults - 'fails forever from byte k' and 'only the Write call crossing byte k fails' - at k in {0, 12345, " +
	"2^20-1, 2^20, 2^22, 2^23+7, 2^24-1, 2^24, 2^24+1, 2^25-1, 2^25, 2^25+1, len-45, len-1} (those below the file length): both must yield a non-nil error; " +
	"non-trivial = a fault beyond 2^24; distinct = hash of the workload text + offset"

func c12GiantProp(st *CaseStats) func(t *rapid.T) {
	return func(t *rapid.T) {
		ctx := &Ctx{}
		defer ctx.Close()
		sc := GenScenario(t)
		c, err := GenLeaf(t, ctx, sc, CaseCfg{Family: FamGiant}, "g")
		if err != nil {
			t.Fatalf("%s: %v", sc, err)
		}
		good, err := Persist(c.Seg)
		if err != nil {
			t.Fatalf("%s: %v", sc, err)
		}
		loaded, err := LoadMem(good)
		if err != nil {
			t.Fatalf("%s: %v", sc, err)
		}
		desc := fmt.Sprintf("%s %s (%d bytes)", sc, c.Desc, len(good))
		var ks []int
		for _, k := range []int{0, 12345, 1<<20 - 1, 1 << 20, 1 << 22, 1<<23 + 7, 1<<24 - 1, 1 << 24, 1<<24 + 1, 1<<25 - 1, 1 << 25, 1<<25 + 1, len(good) - 45, len(good) - 1} {
			if k >= 0 && k < len(good) {
				ks = append(ks, k)
			}
		}
		inner := 0
		for _, src := range []struct {
			name string
			seg  segment.Segment
		}{{"built", c.Seg}, {"loaded", loaded}} {
			for _, k := range ks {
				for _, fw := range []interface {
					Write([]byte) (int, error)
				}{&failOnce{k: k}, &countingFailAfter{k: k}} {
					var n int64
					err := safely("Segment.WriteTo(failing writer)", func() error {
						var e error
						n, e = src.seg.WriteTo(fw, nil)
						return e
					})
					inner++
					if err == nil {
						t.Fatalf("%s:\n  Segment.WriteTo of the %s segment reported success (n=%d) although the writer (%T) failed at byte %d of %d", desc, src.name, n, fw, k, len(good))
					}
					if isPanic(err) {
						t.Fatalf("%s:\n  Segment.WriteTo, writer failing at byte %d: %v", desc, k, err)
					}
				}
			}
		}
		// the merge of the loaded segment (a file of about the same size)
		cw := &countingFailAfter{k: 1 << 40}
		if _, err := ice.Merge([]segment.Segment{loaded}, []*roaring.Bitmap{nil}, 0).WriteTo(cw, nil); err != nil {
			t.Fatalf("%s: fault-free merge: %v", desc, err)
		}
		mergedLen := cw.n
		for _, k := range []int{0, 1<<20 - 1, 1 << 22, 1<<24 - 1, 1 << 24, 1<<24 + 1, mergedLen - 45, mergedLen - 1} {
			if k < 0 || k >= mergedLen {
				continue
			}
			for _, fw := range []interface {
				Write([]byte) (int, error)
			}{&failOnce{k: k}, &countingFailAfter{k: k}} {
				var n int64
				err := safely("Merger.WriteTo(failing writer)", func() error {
					var e error
					n, e = ice.Merge([]segment.Segment{loaded}, []*roaring.Bitmap{nil}, 0).WriteTo(fw, nil)
					return e
				})
				inner++
				if err == nil {
					t.Fatalf("%s:\n  Merger.WriteTo reported success (n=%d) although the writer (%T) failed at byte %d", desc, n, fw, k)
				}
				if isPanic(err) {
					t.Fatalf("%s:\n  Merger.WriteTo, writer failing at byte %d: %v", desc, k, err)
				}
			}
		}
		st.AddInner(inner)
		st.Record(desc, len(good) > 1<<24, "giant")
	}
}

// countingFailAfter is failAfter without keeping the bytes (multi-megabyte files).
type countingFailAfter struct{ k, n int }

func (w *countingFailAfter) Write(p []byte) (int, error) {
	room := w.k - w.n
	if room <= 0 {
		return 0, writeErrFor(w.k)
	}
	if len(p) <= room {
		w.n += len(p)
		return len(p), nil
	}
	w.n += room
	return room, writeErrFor(w.k)
}

func TestC12Giant(t *testing.T) {
	st := NewStats("C12Giant", c12GiantRule)
	defer st.Flush()
	rapid.Check(t, c12GiantProp(st))
}
