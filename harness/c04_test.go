package harness

import (
	"bytes"
	"testing"

	segment "github.com/blugelabs/bluge_segment_api"
	"pgregory.net/rapid"
)

// C04 — every segment ice writes can be loaded back and reads identically.
const c04Rule = "case = a segment reachable by New or by a tree of merges (depth <=3, incl. empty batch and zero-survivor merges), any chunk mode; " +
	"oracle = round trip: WriteTo bytes loaded memory-backed and file-backed, all observations (incl. stats, Count, chunk mode, version) identical " +
	"to the original's and (except stats) to the model; non-trivial = >=2 documents with >=1 stored value and >=1 doc-value term, or a degenerate " +
	"shape (empty batch, zero-survivor merge, no stored value at all, field without terms); distinct = hash of the canonical case text"

type chunkModer interface{ ChunkMode() uint32 }

func c04Prop(st *CaseStats, fam int) func(t *rapid.T) {
	return func(t *rapid.T) {
		ctx := &Ctx{}
		defer ctx.Close()
		sc := GenScenario(t)
		cfg := CaseCfg{Family: fam, MaxDocs: 6, MaxIn: 3}
		depth := 0
		if fam == FamGiant {
			depth = 0
		} else if fam == FamBig {
			cfg.MaxIn = 2
			depth = rapid.SampledFrom([]int{0, 0, 1}).Draw(t, "depthBig")
		} else if fam == FamSmall || fam == FamMid || fam == FamAligned {
			depth = rapid.SampledFrom([]int{0, 1, 1, 2, 3}).Draw(t, "depth")
		} else {
			cfg.MaxIn = 2
			depth = rapid.SampledFrom([]int{0, 1}).Draw(t, "depth")
		}
		c, err := GenCase(t, ctx, sc, cfg, depth, "c")
		if err != nil {
			t.Fatalf("%s: %v", sc, err)
		}
		orig, err := Observe(c.Seg, ProbeFields, AllFacets)
		if err != nil {
			t.Fatalf("case %s %s: observing original: %v", sc, c.Desc, err)
		}
		if d := Diff(c.Exp, orig, NoStats); d != "" {
			t.Fatalf("case %s %s:\n  original vs model: %s", sc, c.Desc, d)
		}
		bs, err := Persist(c.Seg)
		if err != nil {
			t.Fatalf("case %s %s: %v", sc, c.Desc, err)
		}
		// with and without a (never closed) close channel: the same file
		for _, ch := range []chan struct{}{nil, make(chan struct{})} {
			other, err := PersistCh(c.Seg, ch)
			if err != nil {
				t.Fatalf("case %s %s: WriteTo(close channel nil=%v): %v", sc, c.Desc, ch == nil, err)
			}
			if !bytes.Equal(other, bs) {
				t.Fatalf("case %s %s:\n  WriteTo with close channel nil=%v writes a different file (%d vs %d bytes, first difference at %d)", sc, c.Desc, ch == nil, len(other), len(bs), firstDiff(other, bs))
			}
		}
		// into the caller's own bufio.Writer (smaller than, equal to and larger than the library's default buffer)
		for _, size := range []int{16, 4096, 1 << 16} {
			other, n, err := PersistBufio(c.Seg, size)
			if err != nil {
				t.Fatalf("case %s %s: WriteTo(bufio.Writer of %d): %v", sc, c.Desc, size, err)
			}
			if n != int64(len(other)) || !bytes.Equal(other, bs) {
				t.Fatalf("case %s %s:\n  WriteTo into the caller's bufio.Writer(%d) returned %d; after the owner's Flush %d bytes arrived, the file has %d bytes", sc, c.Desc, size, n, len(other), len(bs))
			}
		}
		if len(bs) < 1<<20 && rapid.IntRange(0, 3).Draw(t, "keptWriter") == 0 {
			if err := keptWriterPersists(c.Seg, bs); err != nil {
				t.Fatalf("case %s %s:\n  %v", sc, c.Desc, err)
			}
		}
		mem, err := LoadMem(bs)
		if err != nil {
			t.Fatalf("case %s %s: loading memory-backed: %v", sc, c.Desc, err)
		}
		fil, err := ctx.LoadFile(bs)
		if err != nil {
			t.Fatalf("case %s %s: loading file-backed: %v", sc, c.Desc, err)
		}
		for _, l := range []struct {
			name string
			seg  interface{}
		}{{"memory-loaded", mem}, {"file-loaded", fil}} {
			seg := l.seg.(interface {
				chunkModer
				Version() uint32
				Type() string
			})
			if seg.Version() != c.Seg.Version() || seg.Type() != c.Seg.Type() {
				t.Fatalf("case %s %s: %s version/type differ", sc, c.Desc, l.name)
			}
			if seg.ChunkMode() != c.Seg.(chunkModer).ChunkMode() || seg.ChunkMode() != c.Mode {
				t.Fatalf("case %s %s: %s chunk mode %d, original %d, requested %d", sc, c.Desc, l.name, seg.ChunkMode(), c.Seg.(chunkModer).ChunkMode(), c.Mode)
			}
		}
		if rapid.IntRange(0, 2).Draw(t, "failedPersistOfLoaded") == 0 {
			for _, l := range []segment.Segment{mem, fil} {
				_, _ = l.WriteTo(&failAfter{k: rapid.IntRange(0, 300).Draw(t, "failAt")}, nil)
				again, err := Persist(l)
				if err != nil {
					t.Fatalf("case %s %s: re-persisting a loaded segment: %v", sc, c.Desc, err)
				}
				if !bytes.Equal(again, bs) {
					t.Fatalf("case %s %s:\n  a loaded segment persisted after a failed persist no longer reproduces its file (first difference at byte %d of %d)", sc, c.Desc, firstDiff(again, bs), len(bs))
				}
			}
		}
		om, err := Observe(mem, ProbeFields, AllFacets)
		if err != nil {
			t.Fatalf("case %s %s: observing memory-loaded: %v", sc, c.Desc, err)
		}
		if d := DiffObs(orig, om, AllFacets); d != "" {
			t.Fatalf("case %s %s:\n  original vs memory-loaded: %s", sc, c.Desc, d)
		}
		// a third backing: memory that is a READ-ONLY mapping of the file (reading and re-persisting must not write to it)
		if len(bs) < 1<<22 {
			mm, err := ctx.LoadMmap(bs)
			if err != nil {
				t.Fatalf("case %s %s: loading from a read-only mapping: %v", sc, c.Desc, err)
			}
			omm, err := Observe(mm, ProbeFields, AllFacets)
			if err != nil {
				t.Fatalf("case %s %s: observing the segment loaded from a read-only mapping: %v", sc, c.Desc, err)
			}
			if d := DiffObs(orig, omm, AllFacets); d != "" {
				t.Fatalf("case %s %s:\n  original vs loaded from a read-only mapping: %s", sc, c.Desc, d)
			}
			again, err := Persist(mm)
			if err != nil {
				t.Fatalf("case %s %s:\n  re-persisting the segment loaded from a read-only mapping: %v", sc, c.Desc, err)
			}
			if !bytes.Equal(again, bs) {
				t.Fatalf("case %s %s:\n  the segment loaded from a read-only mapping persists other bytes (first difference at %d)", sc, c.Desc, firstDiff(again, bs))
			}
		}
		of, err := Observe(fil, ProbeFields, AllFacets)
		if err != nil {
			t.Fatalf("case %s %s: observing file-loaded: %v", sc, c.Desc, err)
		}
		if d := DiffObs(orig, of, AllFacets); d != "" {
			t.Fatalf("case %s %s:\n  original vs file-loaded: %s", sc, c.Desc, d)
		}
		labels := c.LabelList()
		anyStored, anyDV, termless := false, false, false
		for _, s := range c.Exp.Stored {
			if len(s) > 0 {
				anyStored = true
			}
		}
		for _, per := range c.Exp.DV {
			if !dvEmpty(per) {
				anyDV = true
			}
		}
		for _, f := range c.Exp.Fields {
			if len(c.Exp.Post[f]) == 0 {
				termless = true
			}
		}
		degenerate := false
		if c.Exp.N == 0 && !c.Merged {
			labels = append(labels, "empty-batch")
			degenerate = true
		}
		if c.Labels["zero-survivors"] {
			degenerate = true
		}
		if c.Exp.N > 0 && !anyStored {
			labels = append(labels, "no-stored-value")
			degenerate = true
		}
		if c.Exp.N > 0 && termless {
			labels = append(labels, "field-without-terms")
			degenerate = true
		}
		if c.Merged {
			labels = append(labels, "merged")
		} else {
			labels = append(labels, "built")
		}
		nt := (c.Exp.N >= 2 && anyStored && anyDV) || degenerate
		st.Record(sc.String()+" "+c.Desc, nt, labels...)
	}
}

func TestC04Small(t *testing.T) {
	st := NewStats("C04Small", c04Rule)
	defer st.Flush()
	rapid.Check(t, c04Prop(st, FamSmall))
}

func TestC04Blocks(t *testing.T) {
	st := NewStats("C04Blocks", c04Rule)
	defer st.Flush()
	rapid.Check(t, c04Prop(st, FamBlocks))
}

func TestC04Wide(t *testing.T) {
	st := NewStats("C04Wide", c04Rule)
	defer st.Flush()
	rapid.Check(t, c04Prop(st, FamWide))
}

func TestC04Mid(t *testing.T) {
	st := NewStats("C04Mid", c04Rule)
	defer st.Flush()
	rapid.Check(t, c04Prop(st, FamMid))
}

func TestC04Big(t *testing.T) {
	st := NewStats("C04Big", c04Rule)
	defer st.Flush()
	rapid.Check(t, c04Prop(st, FamBig))
}

func TestC04Aligned(t *testing.T) {
	st := NewStats("C04Aligned", c04Rule)
	defer st.Flush()
	rapid.Check(t, c04Prop(st, FamAligned))
}

func TestC04Counts(t *testing.T) {
	st := NewStats("C04Counts", c04Rule)
	defer st.Flush()
	rapid.Check(t, c04Prop(st, FamCounts))
}

func TestC04Giant(t *testing.T) {
	st := NewStats("C04Giant", c04Rule)
	defer st.Flush()
	rapid.Check(t, c04Prop(st, FamGiant))
}
