package harness

import (
	"fmt"
	"sort"
	"testing"

	"github.com/RoaringBitmap/roaring"
	segment "github.com/blugelabs/bluge_segment_api"
	"pgregory.net/rapid"
)

// C13 — reusing iterators, postings lists and readers never changes results.
const c13Rule = "case = history of <=40 steps over 1..3 segments of different shapes (built, loaded, merged with 1-hit terms, different chunk modes) with an object pool: " +
	"PostingsList lookups (known/unknown field, known/unknown/deleted term, exclusion) passing nil or ANY earlier postings list as prealloc; Iterator() passing nil or ANY earlier iterator " +
	"(half-consumed, other segment, 1-hit, empty); stepping iterators; dictionaries, dictionary iterators, doc-value readers and stored-field visits continued across many lookups; " +
	"oracle = reference model after every call (objects handed back as prealloc are dead and leave the pool); non-trivial = a reuse whose predecessor and successor differ in encoding (1-hit/general), " +
	"segment, chunk count, flag set or emptiness; distinct = hash of case text + history"

type poolPL struct {
	pl    segment.PostingsList
	seg   int
	list  []XPosting // live (non-excluded) postings
	kind  string     // "1hit", "general", "empty"
	nchk  int
	alive bool
}

type poolIt struct {
	it    segment.PostingsIterator
	from  *poolPL
	idx   int
	last  int64
	tgt   uint64
	any   bool
	locs  bool
	flags string
	alive bool
}

func plKind(c *SegCase, full []XPosting) string {
	if len(full) == 0 {
		return "empty"
	}
	if c.Merged && len(full) == 1 && full[0].Freq == 1 && len(full[0].Locs) == 0 {
		return "1hit"
	}
	return "general"
}

func c13Prop(st *CaseStats, fam int) func(t *rapid.T) {
	return func(t *rapid.T) {
		ctx := &Ctx{}
		defer ctx.Close()
		sc := GenScenario(t)
		nSeg := rapid.IntRange(1, 3).Draw(t, "nSeg")
		cases := make([]*SegCase, nSeg)
		desc := sc.String()
		for i := range cases {
			var err error
			if fam == FamWide && i == 0 {
				// one >1024-document segment: doc-value readers and iterators cross chunk boundaries
				cases[i], err = GenCase(t, ctx, sc, CaseCfg{Family: FamWide, MaxIn: 2, HoldAny: true}, rapid.SampledFrom([]int{0, 0, 1}).Draw(t, "depthWide"), "s0")
			} else {
				cases[i], err = GenCase(t, ctx, sc, CaseCfg{Family: FamSmall, MaxDocs: 8, MaxIn: 2, HoldAny: true},
					rapid.SampledFrom([]int{0, 1, 1}).Draw(t, "depth"), fmt.Sprintf("s%d", i))
			}
			if err != nil {
				t.Fatalf("%s: %v", sc, err)
			}
			desc += fmt.Sprintf(" SEG%d=%s", i, cases[i].Desc)
		}
		var pls []*poolPL
		var its []*poolIt
		dicts := map[string]segment.Dictionary{}
		type dictIt struct {
			it    segment.DictionaryIterator
			seg   int
			field string
			terms []string
			idx   int
		}
		var dits []*dictIt
		type dvR struct {
			r      segment.DocumentValueReader
			seg    int
			fields []string
		}
		var dvrs []*dvR
		hist := ""
		nt := false
		var labels []string
		var termBuf []byte
		fail := func(format string, args ...interface{}) {
			t.Fatalf("%s\n  history:%s\n  %s", desc, hist, fmt.Sprintf(format, args...))
		}
		alivePLs := func() []*poolPL {
			var rv []*poolPL
			for _, p := range pls {
				if p.alive {
					rv = append(rv, p)
				}
			}
			return rv
		}
		aliveIts := func() []*poolIt {
			var rv []*poolIt
			for _, p := range its {
				if p.alive {
					rv = append(rv, p)
				}
			}
			return rv
		}
		nSteps := rapid.IntRange(3, 40).Draw(t, "nSteps")
		for s := 0; s < nSteps; s++ {
			op := rapid.IntRange(0, 11).Draw(t, "op")
			if fam == FamWide && rapid.Bool().Draw(t, "dvHeavy") {
				op = 9 // the wide variant is mostly about one doc-value reader crossing chunk boundaries
			}
			switch {
			case op <= 1: // postings list lookup, maybe reusing an earlier list
				si := rapid.IntRange(0, nSeg-1).Draw(t, "seg")
				c := cases[si]
				field := rapid.SampledFrom(ProbeFields).Draw(t, "field")
				if rapid.IntRange(0, 4).Draw(t, "knownField") > 0 && len(c.Exp.Fields) > 0 {
					field = rapid.SampledFrom(c.Exp.Fields).Draw(t, "kfield")
					if len(c.Exp.Post[field]) == 0 { // prefer a field that has terms
						for _, f := range c.Exp.Fields {
							if len(c.Exp.Post[f]) > 0 {
								field = f
							}
						}
					}
				}
				term := rapid.SampledFrom(TermVocab).Draw(t, "term")
				if ks := sortedKeys(c.Exp.Post[field]); len(ks) > 0 && rapid.IntRange(0, 6).Draw(t, "knownTerm") > 0 {
					term = rapid.SampledFrom(ks).Draw(t, "kterm")
				}
				var except *roaring.Bitmap
				if rapid.IntRange(0, 2).Draw(t, "withExcept") == 0 {
					except = roaring.New()
					mask := rapid.IntRange(0, 255).Draw(t, "exMask")
					for b := 0; b < 8; b++ {
						if mask&(1<<b) != 0 {
							except.Add(uint32(b))
						}
					}
				}
				var pre segment.PostingsList
				var prePL *poolPL
				if ap := alivePLs(); len(ap) > 0 && rapid.IntRange(0, 3).Draw(t, "reusePL") > 0 {
					prePL = ap[rapid.IntRange(0, len(ap)-1).Draw(t, "prePL")]
					pre = prePL.pl
				}
				dk := fmt.Sprintf("%d/%s", si, field)
				full := c.Exp.Post[field][term]
				var live []XPosting
				for _, p := range full {
					if except == nil || !except.Contains(uint32(p.Doc)) {
						live = append(live, p)
					}
				}
				hist += fmt.Sprintf(" PL%d=lookup(seg%d,%q,%q,except=%s,prealloc=%s)", len(pls), si, field, term, bmString(except), plName(pls, prePL))
				var pl segment.PostingsList
				err := safely("PostingsList", func() error {
					d := dicts[dk]
					if d == nil || rapid.IntRange(0, 3).Draw(t, "freshDict") == 0 {
						var err error
						d, err = c.Seg.Dictionary(field)
						if err != nil {
							return err
						}
						dicts[dk] = d
					}
					var err error
					termBuf = append(termBuf[:0], term...) // one term buffer kept and overwritten by the caller
					pl, err = d.PostingsList(termBuf, except, pre)
					if err != nil {
						return err
					}
					if pl.Count() != uint64(len(live)) {
						return fmt.Errorf("Count() = %d, expected %d", pl.Count(), len(live))
					}
					return nil
				})
				if err != nil {
					fail("%v", err)
				}
				np := &poolPL{pl: pl, seg: si, list: live, kind: plKind(c, full), alive: true}
				cs := chunkSizeOf(c.Mode, len(full), c.Exp.N)
				if cs == 0 {
					cs = 1
				}
				ch := map[uint64]bool{}
				for _, p := range full {
					ch[p.Doc/cs] = true
				}
				np.nchk = len(ch)
				if prePL != nil {
					// the previous incarnation (and every iterator made from it) is dead
					prePL.alive = false
					for _, i := range its {
						if i.from == prePL {
							i.alive = false
						}
					}
					if prePL.kind != np.kind || prePL.seg != np.seg || prePL.nchk != np.nchk {
						nt = true
						labels = append(labels, "pl-reuse:"+prePL.kind+"->"+np.kind)
						if prePL.seg != np.seg {
							labels = append(labels, "pl-reuse-across-segments")
						}
					}
				}
				pls = append(pls, np)
			case op <= 4: // iterator, maybe reusing an earlier iterator
				ap := alivePLs()
				if len(ap) == 0 {
					continue
				}
				p := ap[rapid.IntRange(0, len(ap)-1).Draw(t, "itPL")]
				f, n, l := rapid.Bool().Draw(t, "f"), rapid.Bool().Draw(t, "n"), rapid.Bool().Draw(t, "l")
				var pre segment.PostingsIterator
				var preIt *poolIt
				if ai := aliveIts(); len(ai) > 0 && rapid.IntRange(0, 3).Draw(t, "reuseIt") > 0 {
					preIt = ai[rapid.IntRange(0, len(ai)-1).Draw(t, "preIt")]
					pre = preIt.it
				}
				hist += fmt.Sprintf(" IT%d=PL%d.Iterator(%v,%v,%v,prealloc=%s)", len(its), plIndex(pls, p), f, n, l, itName(its, preIt))
				var it segment.PostingsIterator
				err := safely("Iterator", func() error {
					var err error
					it, err = p.pl.Iterator(f, n, l, pre)
					if err != nil {
						return err
					}
					if it.Count() != uint64(len(p.list)) {
						return fmt.Errorf("iterator Count() = %d, expected %d", it.Count(), len(p.list))
					}
					// what an optimiser reads before the first step: the bitmap of live postings, or nothing
					// (1-hit and empty lists keep none) - never the bitmap of whatever the iterator served before
					if o, ok := it.(segment.OptimizablePostingsIterator); ok {
						if abm := o.ActualBitmap(); abm != nil && (p.kind != "general" || !abm.IsEmpty()) {
							want := roaring.New()
							for _, x := range p.list {
								want.Add(uint32(x.Doc))
							}
							if !abm.Equals(want) {
								return fmt.Errorf("ActualBitmap() of the new iterator (list kind %s) is %s, the list's live postings are %s", p.kind, bmString(abm), bmString(want))
							}
						}
					}
					return nil
				})
				if err != nil {
					fail("%v", err)
				}
				ni := &poolIt{it: it, from: p, last: -1, any: f || n || l, locs: l, flags: fmt.Sprint(f, n, l), alive: true}
				if preIt != nil && it == preIt.it {
					preIt.alive = false
					if preIt.from.kind != p.kind || preIt.from.seg != p.seg || preIt.from.nchk != p.nchk || preIt.flags != ni.flags {
						nt = true
						labels = append(labels, "it-reuse:"+preIt.from.kind+"->"+p.kind)
						if preIt.idx > 0 && preIt.idx < len(preIt.from.list) {
							labels = append(labels, "it-reuse-half-consumed")
						}
						if preIt.flags != ni.flags {
							labels = append(labels, "it-reuse-flags-differ")
						}
					}
				} else if preIt != nil {
					// the prealloc was not taken (e.g. the result is the shared empty iterator)
					for _, o := range its {
						if o.it == it {
							o.alive = false // same shared object: keep a single live handle
						}
					}
				}
				its = append(its, ni)
			case op <= 7: // step an iterator
				ai := aliveIts()
				if len(ai) == 0 {
					continue
				}
				i := ai[rapid.IntRange(0, len(ai)-1).Draw(t, "stepIt")]
				live := i.from.list
				var got segment.Posting
				var want *XPosting
				var err error
				if rapid.Bool().Draw(t, "isNext") {
					hist += fmt.Sprintf(" IT%d.Next", itIndex(its, i))
					err = safely("Next", func() error { var e error; got, e = i.it.Next(); return e })
					if i.idx < len(live) {
						want = &live[i.idx]
						i.idx++
					}
				} else {
					lo := uint64(i.last + 1)
					if i.tgt > lo {
						lo = i.tgt
					}
					d := lo + uint64(rapid.IntRange(0, 6).Draw(t, "delta"))
					i.tgt = d
					hist += fmt.Sprintf(" IT%d.Adv(%d)", itIndex(its, i), d)
					err = safely("Advance", func() error { var e error; got, e = i.it.Advance(d); return e })
					j := i.idx + sort.Search(len(live)-i.idx, func(k int) bool { return live[i.idx+k].Doc >= d })
					if j < len(live) {
						want = &live[j]
						i.idx = j + 1
					} else {
						i.idx = len(live)
					}
				}
				if err != nil {
					fail("%v", err)
				}
				if want == nil {
					if got != nil {
						fail("expected nil (end), got posting %d", got.Number())
					}
					continue
				}
				if got == nil {
					fail("expected posting %d, got nil", want.Doc)
				}
				g := XPosting{Doc: got.Number(), Freq: got.Frequency(), Norm: float32(got.Norm()), Locs: copyLocs(got.Locations())}
				w := *want
				if !i.any {
					g.Freq, g.Norm, w.Freq, w.Norm = 0, 0, 0, 0
				}
				if !i.locs {
					w.Locs = nil
				}
				if !postingEq(w, g) {
					fail("expected %+v, got %+v", w, g)
				}
				i.last = int64(g.Doc)
			case op == 8: // dictionary iterators continued across other lookups
				if len(dits) > 0 && rapid.IntRange(0, 3).Draw(t, "stepDictIt") > 0 {
					di := dits[rapid.IntRange(0, len(dits)-1).Draw(t, "dictIt")]
					hist += fmt.Sprintf(" DI(seg%d,%q).Next", di.seg, di.field)
					var e segment.DictionaryEntry
					err := safely("DictionaryIterator.Next", func() error { var err error; e, err = di.it.Next(); return err })
					if err != nil {
						fail("%v", err)
					}
					if di.idx >= len(di.terms) {
						if e != nil {
							fail("dictionary iterator returned %q after the end", e.Term())
						}
						continue
					}
					wt := di.terms[di.idx]
					wc := uint64(len(cases[di.seg].Exp.Post[di.field][wt]))
					if e == nil || e.Term() != wt || e.Count() != wc {
						fail("dictionary iterator: expected %q count %d, got %v", wt, wc, e)
					}
					di.idx++
					if di.idx > 1 {
						labels = append(labels, "dict-iterator-continued")
					}
					continue
				}
				si := rapid.IntRange(0, nSeg-1).Draw(t, "seg")
				field := rapid.SampledFrom(ProbeFields).Draw(t, "dfield")
				if fs := cases[si].Exp.Fields; rapid.Bool().Draw(t, "dKnown") {
					field = rapid.SampledFrom(fs).Draw(t, "dkfield")
				}
				hist += fmt.Sprintf(" DI(seg%d,%q)=new", si, field)
				var it segment.DictionaryIterator
				err := safely("Dictionary.Iterator", func() error {
					d, err := cases[si].Seg.Dictionary(field)
					if err != nil {
						return err
					}
					it = d.Iterator(nil, nil, nil)
					return nil
				})
				if err != nil {
					fail("%v", err)
				}
				dits = append(dits, &dictIt{it: it, seg: si, field: field, terms: sortedKeys(cases[si].Exp.Post[field])})
			case op == 9: // doc-value readers continued across lookups
				if len(dvrs) == 0 || rapid.IntRange(0, 3).Draw(t, "newDV") == 0 {
					si := rapid.IntRange(0, nSeg-1).Draw(t, "seg")
					fields := rapid.SliceOfN(rapid.SampledFrom(ProbeFields), 0, 4).Draw(t, "dvFields")
					if fam == FamWide {
						si = 0
						fields = append(fields, "a")
					}
					r, err := cases[si].Seg.DocumentValueReader(fields)
					if err != nil {
						fail("DocumentValueReader: %v", err)
					}
					dvrs = append(dvrs, &dvR{r, si, fields})
					hist += fmt.Sprintf(" DV%d=reader(seg%d,%q)", len(dvrs)-1, si, fields)
				}
				ri := rapid.IntRange(0, len(dvrs)-1).Draw(t, "dvr")
				r := dvrs[ri]
				c := cases[r.seg]
				if c.Exp.N == 0 {
					continue
				}
				doc := rapid.IntRange(0, c.Exp.N-1).Draw(t, "dvDoc")
				if c.Exp.N > 1024 && rapid.Bool().Draw(t, "dvBoundary") {
					doc = rapid.SampledFrom([]int{0, 1023, 1024, 1025, 2047, 2048, c.Exp.N - 1}).Draw(t, "dvBoundaryDoc")
					if doc >= c.Exp.N {
						doc = c.Exp.N - 1
					}
				}
				hist += fmt.Sprintf(" DV%d.visit(%d)", ri, doc)
				if err := checkDVVisit(r.r, c.Exp, r.fields, uint64(doc)); err != nil {
					fail("%v", err)
				}
			case op == 11: // the caller is done with an iterator and closes it (once, or twice as a deferred Close after an explicit one does); it is dead afterwards
				ai := aliveIts()
				if len(ai) == 0 {
					continue
				}
				i := ai[rapid.IntRange(0, len(ai)-1).Draw(t, "closeIt")]
				twice := rapid.Bool().Draw(t, "closeTwice")
				hist += fmt.Sprintf(" %s.Close(twice=%v)", itName(its, i), twice)
				err := safely("PostingsIterator.Close", func() error {
					if err := i.it.Close(); err != nil {
						return err
					}
					if twice {
						return i.it.Close()
					}
					return nil
				})
				if err != nil {
					fail("%v", err)
				}
				for _, o := range its {
					if o.it == i.it {
						o.alive = false
					}
				}
				labels = append(labels, "iterator-closed")
			default: // stored field visits (pooled visit context) interleaved across segments
				si := rapid.IntRange(0, nSeg-1).Draw(t, "seg")
				c := cases[si]
				v := visit{Doc: uint64(rapid.IntRange(0, c.Exp.N).Draw(t, "sDoc")), Stop: rapid.SampledFrom([]int{0, 0, 1}).Draw(t, "stop")}
				hist += fmt.Sprintf(" stored(seg%d,%d)", si, v.Doc)
				if err := runVisit(c.Seg, c.Exp, v); err != nil {
					fail("%v", err)
				}
			}
		}
		st.Record(desc+" history:"+hist, nt, dedup(labels)...)
	}
}

func plIndex(pls []*poolPL, p *poolPL) int {
	for i, x := range pls {
		if x == p {
			return i
		}
	}
	return -1
}

func plName(pls []*poolPL, p *poolPL) string {
	if p == nil {
		return "nil"
	}
	return fmt.Sprintf("PL%d", plIndex(pls, p))
}

func itIndex(its []*poolIt, p *poolIt) int {
	for i, x := range its {
		if x == p {
			return i
		}
	}
	return -1
}

func itName(its []*poolIt, p *poolIt) string {
	if p == nil {
		return "nil"
	}
	return fmt.Sprintf("IT%d", itIndex(its, p))
}

// checkDVVisit visits one document with the reader and compares with the
// model: for each requested field in request order that has doc values, the
// document's sorted distinct terms; nothing else.
func checkDVVisit(r segment.DocumentValueReader, exp *XSeg, fields []string, doc uint64) error {
	type kv struct{ f, t string }
	var got []kv
	err := safely("VisitDocumentValues", func() error {
		return r.VisitDocumentValues(doc, func(field string, term []byte) {
			got = append(got, kv{field, string(term)})
		})
	})
	if err != nil {
		return fmt.Errorf("VisitDocumentValues(%d): %v", doc, err)
	}
	var want []kv
	for _, f := range fields {
		if per := exp.DV[f]; per != nil && int(doc) < len(per) {
			for _, tm := range per[doc] {
				want = append(want, kv{f, tm})
			}
		}
	}
	if len(got) != len(want) {
		return fmt.Errorf("VisitDocumentValues(%d) fields %q: expected %q, got %q", doc, fields, want, got)
	}
	for i := range want {
		if want[i] != got[i] {
			return fmt.Errorf("VisitDocumentValues(%d) fields %q: expected %q, got %q", doc, fields, want, got)
		}
	}
	return nil
}

func TestC13(t *testing.T) {
	st := NewStats("C13", c13Rule)
	defer st.Flush()
	rapid.Check(t, c13Prop(st, FamSmall))
}

func TestC13Wide(t *testing.T) {
	st := NewStats("C13Wide", c13Rule)
	defer st.Flush()
	rapid.Check(t, c13Prop(st, FamWide))
}
