package harness

import (
	"fmt"
	"reflect"
	"testing"

	"github.com/RoaringBitmap/roaring"
	segment "github.com/blugelabs/bluge_segment_api"
	"pgregory.net/rapid"
)

// C03 — merge reports a correct old->new document number mapping.
const c03Rule = "case = 1..4 input segments (built, loaded or previously merged; incl. empty segments, all-dropped segments, zero survivors) merged through the " +
	"public Merge(...).WriteTo; every document carries a unique stored marker and a unique _id term; oracle = arithmetic on the bitmaps " +
	"(one slice per input of the input's length, dropped = MaxInt64, survivors 0,1,2.. in (segment, document) order, Count = survivors) plus the marker/" +
	"_id posting of every survivor found at exactly its reported number; non-trivial = >=2 inputs with >=1 dropped and >=1 surviving document, or a degenerate shape " +
	"(empty input, nothing survives); distinct = hash of the canonical case text"

// addMarkers appends to every document a unique `_id` term and stored value.
func addMarkers(b Batch, sc *Scenario, prefix string) {
	for i := range b {
		uid := fmt.Sprintf("%s-%d", prefix, i)
		b[i].Fields = append(b[i].Fields, Field{Name: "_id", Len: 1, Terms: []Term{{T: uid, Freq: 1}},
			Store: true, Value: uid, DV: sc.Schema["_id"] == dvAlways})
	}
}

func c03Leaf(t *rapid.T, ctx *Ctx, sc *Scenario, prefix string, fam int) (*SegCase, error) {
	var b Batch
	if fam == FamWide {
		b = GenWide(t).Batch(sc)
	} else if fam == FamBlocks {
		// 40..300 documents: merged stored blocks are crossed in the middle of an input
		p := GenBlocks(t)
		if rapid.Bool().Draw(t, prefix+":shortBlocks") {
			p.N = rapid.IntRange(40, 127).Draw(t, prefix+":Nshort")
		}
		b = p.Batch(sc)
	} else {
		b = GenBatch(t, sc, 6)
	}
	addMarkers(b, sc, prefix)
	seg, err := Build(b, sc.Norm, 1025)
	if err != nil {
		return nil, err
	}
	desc := b.String()
	if fam == FamBlocks || fam == FamWide {
		desc = fmt.Sprintf("large-with-markers{%d docs}", len(b))
	}
	c := &SegCase{Seg: seg, Exp: Expect(b, sc.Norm.F), Docs: b, Mode: 1025, Desc: fmt.Sprintf("built{%s}", desc)}
	hold := rapid.IntRange(holdBuilt, holdMmap).Draw(t, prefix+":hold")
	if hold != holdBuilt {
		if err := c.reload(ctx, hold); err != nil {
			return nil, err
		}
	}
	return c, nil
}

// uidOf returns the marker of a document.
func uidOf(d *Doc) string { return d.Fields[len(d.Fields)-1].Value }

func TestC03(t *testing.T) {
	st := NewStats("C03", c03Rule)
	defer st.Flush()
	rapid.Check(t, c03Prop(st, FamSmall))
}

func TestC03Wide(t *testing.T) {
	st := NewStats("C03Wide", c03Rule)
	defer st.Flush()
	rapid.Check(t, c03Prop(st, FamWide))
}

func TestC03Blocks(t *testing.T) {
	st := NewStats("C03Blocks", c03Rule)
	defer st.Flush()
	rapid.Check(t, c03Prop(st, FamBlocks))
}

func c03Prop(st *CaseStats, fam int) func(t *rapid.T) {
	return func(t *rapid.T) {
		ctx := &Ctx{}
		defer ctx.Close()
		sc := GenScenario(t)
		k := rapid.IntRange(1, 4).Draw(t, "nIn")
		if fam == FamBlocks {
			k = rapid.IntRange(2, 3).Draw(t, "nInBlocks")
		}
		if fam == FamWide {
			k = 2
		}
		ins := make([]*SegCase, k)
		drops := make([]*roaring.Bitmap, k)
		segs := make([]segment.Segment, k)
		exps := make([]*XSeg, k)
		descs := ""
		premerged := false
		for i := range ins {
			var err error
			prefix := fmt.Sprintf("s%d", i)
			if rapid.IntRange(0, 3).Draw(t, prefix+":premerged") == 0 {
				// this input is itself the output of an earlier merge
				a, err := c03Leaf(t, ctx, sc, prefix+"a", fam)
				if err != nil {
					t.Fatalf("%v", err)
				}
				b, err := c03Leaf(t, ctx, sc, prefix+"b", fam)
				if err != nil {
					t.Fatalf("%v", err)
				}
				pd := []*roaring.Bitmap{GenDrops(t, a.Exp.N, prefix+"a"), GenDrops(t, b.Exp.N, prefix+"b")}
				ins[i], _, err = MergeCases(ctx, []*SegCase{a, b}, pd, 1025, rapid.IntRange(holdMem, holdMmap).Draw(t, prefix+":mhold"))
				if err != nil {
					t.Fatalf("%s: %v", sc, err)
				}
				premerged = true
			} else {
				ins[i], err = c03Leaf(t, ctx, sc, prefix, fam)
				if err != nil {
					t.Fatalf("%v", err)
				}
			}
			drops[i] = GenDrops(t, ins[i].Exp.N, prefix)
			segs[i], exps[i] = ins[i].Seg, ins[i].Exp
			descs += fmt.Sprintf(" || %s drop=%s", ins[i].Desc, bmString(drops[i]))
		}
		bufSize := rapid.SampledFrom([]int{0, 1, 7, 64, 4096}).Draw(t, "bufSize")
		desc := fmt.Sprintf("%s publicMerge(buf=%d)[%s ]", sc, bufSize, descs)
		dropsBefore := append([]*roaring.Bitmap{}, drops...)
		bs, maps, err := PublicMerge(segs, drops, bufSize)
		if err != nil {
			t.Fatalf("%s: %v", desc, err)
		}
		for i := range drops {
			if drops[i] != dropsBefore[i] {
				t.Fatalf("%s:\n  the merge replaced entry %d of the caller's slice of deletion bitmaps (%s -> %s): a caller that keeps the slice and adds deletions to its bitmaps later merges with other deletions than it thinks",
					desc, i, bmString(dropsBefore[i]), bmString(drops[i]))
			}
		}
		exp, wantMaps := MergeExpect(exps, drops)
		// the slices are the caller's: growing one of them must not reach into another
		for i := range maps {
			if i+1 < len(maps) {
				_ = append(maps[i], 12345, 67890)
			}
		}
		if len(maps) != len(wantMaps) {
			t.Fatalf("%s:\n  DocumentNumbers has %d slices for %d input segments: %v", desc, len(maps), len(wantMaps), maps)
		}
		for i := range wantMaps {
			if len(maps[i]) != len(wantMaps[i]) {
				t.Fatalf("%s:\n  DocumentNumbers[%d] has length %d, segment has %d documents", desc, i, len(maps[i]), len(wantMaps[i]))
			}
			if len(maps[i]) > 0 && !reflect.DeepEqual(maps[i], wantMaps[i]) {
				t.Fatalf("%s:\n  DocumentNumbers[%d] = %v, expected %v", desc, i, maps[i], wantMaps[i])
			}
		}
		merged, err := LoadMem(bs)
		if err != nil {
			t.Fatalf("%s: loading merged: %v", desc, err)
		}
		if merged.Count() != uint64(exp.N) {
			t.Fatalf("%s:\n  merged Count %d, survivors %d", desc, merged.Count(), exp.N)
		}
		// content of every surviving old document at exactly its new number
		dict, err := merged.Dictionary("_id")
		if err != nil {
			t.Fatalf("%s: %v", desc, err)
		}
		seen := map[uint64]bool{}
		for si, in := range ins {
			for d := range in.Docs {
				uid := uidOf(&in.Docs[d])
				// in.Docs of a premerged input lists its survivors in order = its doc numbers
				nd := maps[si][d]
				pl, err := dict.PostingsList([]byte(uid), nil, nil)
				if err != nil {
					t.Fatalf("%s: %v", desc, err)
				}
				ps, err := WalkPostings(pl, true, true, true)
				if err != nil {
					t.Fatalf("%s: %v", desc, err)
				}
				if nd == DocDropped {
					if len(ps) != 0 {
						t.Fatalf("%s:\n  dropped document %s still has postings %v", desc, uid, ps)
					}
					continue
				}
				if seen[nd] {
					t.Fatalf("%s:\n  new number %d assigned twice", desc, nd)
				}
				seen[nd] = true
				if len(ps) != 1 || ps[0].Doc != nd {
					t.Fatalf("%s:\n  _id term %s expected at new number %d, postings %v", desc, uid, nd, ps)
				}
				found := false
				err = merged.VisitStoredFields(nd, func(f string, v []byte) bool {
					if f == "_id" && string(v) == uid {
						found = true
					}
					return true
				})
				if err != nil || !found {
					t.Fatalf("%s:\n  stored marker %s not found at new number %d (err %v)", desc, uid, nd, err)
				}
			}
		}
		obs, err := Observe(merged, ProbeFields, NoStats)
		if err != nil {
			t.Fatalf("%s: %v", desc, err)
		}
		if d := Diff(exp, obs, NoStats); d != "" {
			t.Fatalf("%s:\n  merged vs model: %s", desc, d)
		}
		var labels []string
		anyDrop, anyEmpty := false, false
		for i := range ins {
			if ins[i].Exp.N == 0 {
				anyEmpty = true
			}
			if drops[i] != nil && !drops[i].IsEmpty() {
				anyDrop = true
			}
		}
		if anyEmpty {
			labels = append(labels, "empty-input-segment")
		}
		if exp.N == 0 {
			labels = append(labels, "nothing-survives")
		}
		if premerged {
			labels = append(labels, "premerged-input")
		}
		if anyDrop {
			labels = append(labels, "with-drops")
		}
		nt := (k >= 2 && anyDrop && exp.N > 0) || anyEmpty || exp.N == 0
		st.Record(desc, nt, labels...)
	}
}
