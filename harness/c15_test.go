package harness

import (
	"bytes"
	"fmt"
	"testing"

	"github.com/RoaringBitmap/roaring"
	segment "github.com/blugelabs/bluge_segment_api"
	ice "github.com/blugelabs/ice/v2"
	"pgregory.net/rapid"
)

// C15 — reading, persisting and merging never modify a segment or the caller's bitmaps.
const c15Rule = "case = 2..3 segments (built / loaded / merged) + caller-owned bitmaps (array containers holding consecutive values, so that an in-place run-optimisation would change their bytes; " +
	"foreign numbers for exclusions) and a history of <=10 actions: postings walks with a bitmap as exclusion, DocsMatchingTerms, stored / doc-value visits (also with the slice Fields() returned as the field list), WriteTo, merges and persists whose destination fails at a drawn offset, merges (hooked and public) taking drawn segments as " +
	"inputs with the bitmaps as drops, builds of unrelated batches; oracle = snapshot before (full observation + persisted bytes per segment; clone + serialised bytes per bitmap), everything re-observed after every action - including stored visits re-entered from inside a visitor - must be identical " +
	"(set AND representation equality for bitmaps); non-trivial = the history contains a merge with a non-empty drop bitmap followed by a re-observation of its inputs; distinct = hash of case text + history"

type segSnap struct {
	obs    *XSeg
	bytes  []byte
	footer string // what the footer accessors report
}

func footerView(s segment.Segment) string {
	type fv interface {
		CRC() uint32
		NumDocs() uint64
		ChunkMode() uint32
		Version() uint32
		FieldsIndexOffset() uint64
		StoredIndexOffset() uint64
		DocValueOffset() uint64
		Size() int
	}
	f, ok := s.(fv)
	if !ok {
		return ""
	}
	return fmt.Sprintf("crc=%08x numDocs=%d chunkMode=%d version=%d fieldsIdx=%d storedIdx=%d dvOffset=%d size=%d",
		f.CRC(), f.NumDocs(), f.ChunkMode(), f.Version(), f.FieldsIndexOffset(), f.StoredIndexOffset(), f.DocValueOffset(), f.Size())
}

func snapSeg(s segment.Segment) (*segSnap, error) {
	fv := footerView(s) // before anything else touches the segment
	o, err := Observe(s, ProbeFields, AllFacets)
	if err != nil {
		return nil, err
	}
	b, err := Persist(s)
	if err != nil {
		return nil, err
	}
	return &segSnap{o, b, fv}, nil
}

type bmSnap struct {
	clone *roaring.Bitmap
	bytes []byte
}

func snapBM(b *roaring.Bitmap) bmSnap {
	bs, _ := b.ToBytes()
	return bmSnap{b.Clone(), bs}
}

// nestedStoredCheck visits every document's stored fields and, from inside the
// first callback, visits another document completely: both visits must deliver
// what the snapshot holds.
func nestedStoredCheck(seg segment.Segment, snap *XSeg) error {
	n := snap.N
	for d := 0; d < n; d++ {
		other := (d + 1) % n
		if n > 200 {
			other = (d + 131) % n // another stored block
		}
		var outer, inner []XStored
		var innerErr error
		entered := false
		err := safely("nested VisitStoredFields", func() error {
			return seg.VisitStoredFields(uint64(d), func(f string, v []byte) bool {
				val := string(v)
				if !entered {
					entered = true
					innerErr = seg.VisitStoredFields(uint64(other), func(f2 string, v2 []byte) bool {
						inner = append(inner, XStored{f2, string(v2)})
						return true
					})
				}
				outer = append(outer, XStored{f, val})
				return true
			})
		})
		if err != nil {
			return err
		}
		if innerErr != nil {
			return innerErr
		}
		if fmt.Sprint(outer) != fmt.Sprint(snap.Stored[d]) {
			return fmt.Errorf("outer visit of document %d delivered %q, before the history it was %q", d, outer, snap.Stored[d])
		}
		if entered && fmt.Sprint(inner) != fmt.Sprint(snap.Stored[other]) {
			return fmt.Errorf("visit of document %d from inside the visitor of document %d delivered %q, before the history it was %q", other, d, inner, snap.Stored[other])
		}
	}
	return nil
}

func c15Prop(st *CaseStats) func(t *rapid.T) {
	return func(t *rapid.T) {
		ctx := &Ctx{}
		defer ctx.Close()
		sc := GenScenario(t)
		nSeg := rapid.IntRange(2, 3).Draw(t, "nSeg")
		cases := make([]*SegCase, nSeg)
		snaps := make([]*segSnap, nSeg)
		desc := sc.String()
		for i := range cases {
			var err error
			cases[i], err = GenCase(t, ctx, sc, CaseCfg{Family: FamSmall, MaxDocs: 8, MaxIn: 2, HoldAny: true},
				rapid.SampledFrom([]int{0, 0, 1}).Draw(t, "depth"), fmt.Sprintf("s%d", i))
			if err != nil {
				t.Fatalf("%s: %v", sc, err)
			}
			desc += fmt.Sprintf(" SEG%d=%s", i, cases[i].Desc)
			snaps[i], err = snapSeg(cases[i].Seg)
			if err != nil {
				t.Fatalf("%s: snapshot: %v", desc, err)
			}
		}
		// per segment one drop bitmap naming existing documents only; plus one
		// exclusion bitmap with foreign numbers
		drops := make([]*roaring.Bitmap, nSeg)
		dsn := make([]bmSnap, nSeg)
		for i, c := range cases {
			bm := roaring.New()
			if c.Exp.N > 0 {
				lo := rapid.IntRange(0, c.Exp.N-1).Draw(t, "dropLo")
				hi := rapid.IntRange(lo, c.Exp.N).Draw(t, "dropHi")
				for d := lo; d < hi; d++ { // consecutive values added one by one: array container
					bm.Add(uint32(d))
				}
			}
			drops[i] = bm
			dsn[i] = snapBM(bm)
			desc += fmt.Sprintf(" DROP%d=%s", i, bmString(bm))
		}
		excl := roaring.New()
		for d := 0; d < 40; d++ {
			excl.Add(uint32(d))
		}
		excl.Add(70000)
		excl.Add(70001)
		exSnap := snapBM(excl)

		hist := ""
		mergedWithDrops := false
		aliased := false
		failedWrites := false
		nt := false
		verify := func() {
			for i, c := range cases {
				now, err := snapSeg(c.Seg)
				if err != nil {
					t.Fatalf("%s history%s: re-observing SEG%d: %v", desc, hist, i, err)
				}
				if d := DiffObs(snaps[i].obs, now.obs, AllFacets); d != "" {
					t.Fatalf("%s history%s:\n  SEG%d changed: %s", desc, hist, i, d)
				}
				if err := nestedStoredCheck(c.Seg, snaps[i].obs); err != nil {
					t.Fatalf("%s history%s:\n  SEG%d, stored visit re-entered from inside a visitor: %v", desc, hist, i, err)
				}
				if snaps[i].footer != now.footer {
					t.Fatalf("%s history%s:\n  SEG%d reports a different footer / size than before: %s -> %s", desc, hist, i, snaps[i].footer, now.footer)
				}
				if !bytes.Equal(snaps[i].bytes, now.bytes) {
					t.Fatalf("%s history%s:\n  SEG%d persists different bytes than before (first difference at %d)", desc, hist, i, firstDiff(snaps[i].bytes, now.bytes))
				}
			}
			chk := func(name string, bm *roaring.Bitmap, sn bmSnap) {
				if !bm.Equals(sn.clone) {
					t.Fatalf("%s history%s:\n  bitmap %s changed: was %s, is %s", desc, hist, name, bmString(sn.clone), bmString(bm))
				}
				bs, _ := bm.ToBytes()
				if !bytes.Equal(bs, sn.bytes) {
					t.Fatalf("%s history%s:\n  bitmap %s kept its members but changed representation (serialised %d -> %d bytes)", desc, hist, name, len(sn.bytes), len(bs))
				}
			}
			for i := range drops {
				chk(fmt.Sprintf("DROP%d", i), drops[i], dsn[i])
			}
			chk("EXCL", excl, exSnap)
			if mergedWithDrops {
				nt = true
			}
		}
		nAct := rapid.IntRange(1, 10).Draw(t, "nActions")
		for a := 0; a < nAct; a++ {
			si := rapid.IntRange(0, nSeg-1).Draw(t, "seg")
			c := cases[si]
			var err error
			switch rapid.IntRange(0, 12).Draw(t, "action") {
			case 12: // statistics of present and absent fields used as Merge receivers; an empty DocsMatchingTerms result modified
				hist += fmt.Sprintf(" statsMerge+emptyDocs(seg%d)", si)
				err = safely("stats merge", func() error {
					for _, f := range []string{UnknownField, rapid.SampledFrom(ProbeFields).Draw(t, "statsField")} {
						x, err := c.Seg.CollectionStats(f)
						if err != nil {
							return err
						}
						x.Merge(&oneDocStats{})
						other, err := cases[(si+1)%nSeg].Seg.CollectionStats("_id")
						if err != nil {
							return err
						}
						x.Merge(other)
					}
					bm, err := c.Seg.DocsMatchingTerms(nil)
					if err != nil {
						return err
					}
					if bm != nil {
						bm.Add(3)
						bm.Add(900000)
					}
					return nil
				})
			case 10, 11: // a merge / persist whose destination fails at a drawn offset
				k := rapid.SampledFrom([]int{0, 1, 5, 16, 40, 100, 300, 1000}).Draw(t, "failAt") + rapid.IntRange(0, 15).Draw(t, "failAtJitter")
				if rapid.Bool().Draw(t, "failedMerge") {
					hist += fmt.Sprintf(" failedMerge(seg%d,writer fails after %d bytes)", si, k)
					dr := drops[si]
					if rapid.Bool().Draw(t, "failedMergeNoDrops") {
						dr = nil
					}
					_ = safely("failed merge", func() error {
						_, e := ice.Merge([]segment.Segment{c.Seg}, []*roaring.Bitmap{dr}, rapid.SampledFrom([]int{0, 16}).Draw(t, "failedMergeBuf")).WriteTo(&failAfter{k: k}, nil)
						return e
					})
				} else {
					hist += fmt.Sprintf(" failedPersist(seg%d,writer fails after %d bytes)", si, k)
					_, _ = c.Seg.WriteTo(&failAfter{k: k}, nil)
				}
				failedWrites = true
			case 9: // the slice Fields() returned handed straight back to a read API (all fields' doc values)
				hist += fmt.Sprintf(" dvOverFields(seg%d)", si)
				aliased = true
				err = safely("doc values over Fields()", func() error {
					r, err := c.Seg.DocumentValueReader(c.Seg.Fields())
					if err != nil {
						return err
					}
					for d := c.Exp.N - 1; d >= 0; d-- {
						if err := r.VisitDocumentValues(uint64(d), func(string, []byte) {}); err != nil {
							return err
						}
					}
					return nil
				})
			case 8: // building other batches (pooled builder state) must not reach into existing segments
				hist += " buildOther"
				ob := GenBatch(t, sc, 6)
				_, err = Build(ob, sc.Norm, rapid.SampledFrom(ChunkModes).Draw(t, "otherMode"))
			case 0, 1: // postings walk with a caller bitmap as exclusion
				bm := excl
				if rapid.Bool().Draw(t, "useDrop") {
					bm = drops[si]
				}
				f := rapid.SampledFrom(c.Exp.Fields).Draw(t, "field")
				hist += fmt.Sprintf(" walk(seg%d,%q)", si, f)
				err = safely("walk", func() error {
					d, err := c.Seg.Dictionary(f)
					if err != nil {
						return err
					}
					for _, tm := range sortedKeys(c.Exp.Post[f]) {
						pl, err := d.PostingsList([]byte(tm), bm, nil)
						if err != nil {
							return err
						}
						ps, err := WalkPostings(pl, true, true, true)
						if err != nil {
							return err
						}
						var want []XPosting
						for _, p := range c.Exp.Post[f][tm] {
							if !bm.Contains(uint32(p.Doc)) {
								want = append(want, p)
							}
						}
						if d := postingsDiff(want, ps); d != "" {
							return fmt.Errorf("term %q with exclusion: %s", tm, d)
						}
						// ReplaceActual on an optimisable iterator must not write into the bitmaps either
						it, err := pl.Iterator(false, false, false, nil)
						if err != nil {
							return err
						}
						if o, ok := it.(segment.OptimizablePostingsIterator); ok {
							if abm := o.ActualBitmap(); abm != nil && !abm.IsEmpty() {
								// the bitmap an iterator hands out used as the exclusion of the next lookup, whose
								// iterator reuses that very iterator: the handed-out bitmap is the caller's deletion
								// bitmap now and must come back unchanged
								before := abm.Clone()
								pl2, err := d.PostingsList([]byte(tm), abm, nil)
								if err != nil {
									return err
								}
								it2, err := pl2.Iterator(true, true, true, it)
								if err != nil {
									return err
								}
								n2 := 0
								for {
									p, err := it2.Next()
									if err != nil {
										return err
									}
									if p == nil {
										break
									}
									if before.Contains(uint32(p.Number())) {
										return fmt.Errorf("term %q: excluded document %d delivered (exclusion = a bitmap handed out by ActualBitmap())", tm, p.Number())
									}
									n2++
								}
								if !abm.Equals(before) {
									return fmt.Errorf("term %q: the bitmap handed out by ActualBitmap(), used as exclusion bitmap while its iterator was reused, changed from %s to %s", tm, bmString(before), bmString(abm))
								}
								wantN := 0
								for _, p := range c.Exp.Post[f][tm] {
									if !before.Contains(uint32(p.Doc)) {
										wantN++
									}
								}
								if n2 != wantN {
									return fmt.Errorf("term %q: %d postings with the handed-out bitmap as exclusion, expected %d", tm, n2, wantN)
								}
							}
						}
					}
					return nil
				})
			case 2:
				hist += fmt.Sprintf(" docsMatching(seg%d)", si)
				var list []segment.Term
				for _, f := range c.Exp.Fields {
					for _, tm := range sortedKeys(c.Exp.Post[f]) {
						list = append(list, ftTerm{f, tm})
					}
				}
				err = safely("DocsMatchingTerms", func() error {
					bm, e := c.Seg.DocsMatchingTerms(list)
					if e == nil {
						// the result is the caller's: mutate it, the segment must not care
						bm.Add(12345)
						bm.RunOptimize()
					}
					return e
				})
			case 3:
				hist += fmt.Sprintf(" persist(seg%d)", si)
				_, err = Persist(c.Seg)
			case 4: // stored + doc values
				hist += fmt.Sprintf(" visitAll(seg%d)", si)
				_, err = Observe(c.Seg, ProbeFields, Facets{Stored: true, DV: true})
			default: // merge with the bitmaps as drops
				k := rapid.IntRange(1, nSeg).Draw(t, "mergeK")
				var segs []segment.Segment
				var ds []*roaring.Bitmap
				first := rapid.IntRange(0, nSeg-1).Draw(t, "mergeFirst")
				var idx []int
				for j := 0; j < k; j++ {
					x := (first + j) % nSeg
					idx = append(idx, x)
					segs = append(segs, cases[x].Seg)
					switch rapid.IntRange(0, 3).Draw(t, "dropKind") {
					case 0:
						ds = append(ds, nil)
					default:
						ds = append(ds, drops[x])
						if !drops[x].IsEmpty() {
							mergedWithDrops = true
						}
					}
				}
				if rapid.Bool().Draw(t, "publicMerge") {
					hist += fmt.Sprintf(" publicMerge(%v)", idx)
					_, _, err = PublicMerge(segs, ds, rapid.SampledFrom([]int{0, 7}).Draw(t, "buf"))
				} else {
					hist += fmt.Sprintf(" merge(%v)", idx)
					_, _, err = MergeBytes(segs, ds, rapid.SampledFrom(ChunkModes).Draw(t, "mode"))
				}
			}
			if err != nil {
				t.Fatalf("%s history%s: %v", desc, hist, err)
			}
			verify()
		}
		var labels []string
		if mergedWithDrops {
			labels = append(labels, "merge-with-nonempty-drops")
		}
		if aliased {
			labels = append(labels, "Fields()-slice-passed-back")
		}
		if failedWrites {
			labels = append(labels, "failed-merge-or-persist-in-history")
		}
		st.Record(desc+" history"+hist, nt, labels...)
	}
}

func TestC15(t *testing.T) {
	st := NewStats("C15", c15Rule)
	defer st.Flush()
	rapid.Check(t, c15Prop(st))
}
