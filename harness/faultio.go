package harness

// Storage fault injection: segment.Data only offers NewDataFile(*os.File), so
// the harness builds file-backed data on a real temp file and swaps the
// unexported io.ReaderAt inside the Data value for a counting, programmable
// reader BEFORE ice.Load wraps it in its section reader.

import (
	"errors"
	"fmt"
	"io"
	"os"
	"reflect"
	"sync/atomic"
	"unsafe"

	segment "github.com/blugelabs/bluge_segment_api"
)

var errInjectedRead = errors.New("injected storage read failure")

// faultReader fails every ReadAt from call index failFrom on (-1: never).
type faultReader struct {
	inner     io.ReaderAt
	calls     atomic.Int64
	failures  atomic.Int64
	failFrom  atomic.Int64
	failUntil atomic.Int64 // exclusive; 0 or negative: forever
}

func (r *faultReader) ReadAt(p []byte, off int64) (int, error) {
	i := r.calls.Add(1) - 1
	if ff, fu := r.failFrom.Load(), r.failUntil.Load(); ff >= 0 && i >= ff && (fu <= 0 || i < fu) {
		r.failures.Add(1)
		return 0, errInjectedRead
	}
	return r.inner.ReadAt(p, off)
}

// arm resets the call counter and makes every read from index k on fail.
func (r *faultReader) arm(k int64) {
	r.calls.Store(0)
	r.failures.Store(0)
	r.failFrom.Store(k)
	r.failUntil.Store(0)
}

// armWindow makes the reads with index in [k, k+m) fail and later ones succeed again.
func (r *faultReader) armWindow(k, m int64) {
	r.arm(k)
	r.failUntil.Store(k + m)
}

func swapDataReader(d *segment.Data, wrap func(io.ReaderAt) io.ReaderAt) error {
	v := reflect.ValueOf(d).Elem()
	f := v.FieldByName("r")
	if !f.IsValid() || f.Type() != reflect.TypeOf((*io.ReaderAt)(nil)).Elem() {
		return fmt.Errorf("segment.Data has no field r of type io.ReaderAt")
	}
	p := (*io.ReaderAt)(unsafe.Pointer(f.UnsafeAddr()))
	if *p == nil {
		return fmt.Errorf("segment.Data.r is nil (not file-backed)")
	}
	*p = wrap(*p)
	return nil
}

// faultData returns file-backed Data over f whose reads go through a
// faultReader.
func faultData(f *os.File) (*segment.Data, *faultReader, error) {
	d, err := segment.NewDataFile(f)
	if err != nil {
		return nil, nil, err
	}
	fr := &faultReader{}
	fr.failFrom.Store(-1)
	if err := swapDataReader(d, func(in io.ReaderAt) io.ReaderAt { fr.inner = in; return fr }); err != nil {
		return nil, nil, err
	}
	return d, fr, nil
}

// selfTestFaultData verifies the swap once per process.
func selfTestFaultData() error {
	f, err := os.CreateTemp(scratchDir(), "selftest-*")
	if err != nil {
		return err
	}
	defer os.Remove(f.Name())
	defer f.Close()
	if _, err := f.Write([]byte("0123456789")); err != nil {
		return err
	}
	d, fr, err := faultData(f)
	if err != nil {
		return err
	}
	b, err := d.Read(2, 6)
	if err != nil || string(b) != "2345" || fr.calls.Load() != 1 {
		return fmt.Errorf("swap self-test: read %q err %v calls %d", b, err, fr.calls.Load())
	}
	fr.arm(0)
	if _, err := d.Read(0, 1); !errors.Is(err, errInjectedRead) {
		return fmt.Errorf("swap self-test: injected failure not delivered: %v", err)
	}
	s := d.Slice(0, 5)
	fr.arm(-1)
	if b, err := s.Read(1, 3); err != nil || string(b) != "12" || fr.calls.Load() != 1 {
		return fmt.Errorf("swap self-test: slice does not read through the injected reader")
	}
	return nil
}
