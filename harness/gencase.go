package harness

// Segment cases: a segment reachable by New or by a tree of merges, together
// with its expectation and the documents it holds.

import (
	"fmt"
	"strings"

	"github.com/RoaringBitmap/roaring"
	segment "github.com/blugelabs/bluge_segment_api"
	"pgregory.net/rapid"
)

type SegCase struct {
	Seg    segment.Segment
	Exp    *XSeg
	Docs   Batch // the documents held, in order
	Bytes  []byte
	Mode   uint32
	Merged bool
	Desc   string
	Labels map[string]bool
}

func (s *SegCase) label(l string) {
	if s.Labels == nil {
		s.Labels = map[string]bool{}
	}
	s.Labels[l] = true
}

func (s *SegCase) LabelList() []string {
	var rv []string
	for l := range s.Labels {
		rv = append(rv, l)
	}
	return rv
}

const (
	FamSmall = iota
	FamBlocks
	FamWide
	FamManyFields // 130..300 field names: two-byte field ids
	FamTerms      // 1..4 documents with 60..600 distinct terms sharing prefixes and suffixes: a real FST
	FamBig        // a few documents with large incompressible stored values: data section > 1 MiB
	FamHuge       // > 65535 documents: document numbers span several roaring containers
	FamMid        // 1..28 documents focused on one posting list (multi-chunk under fixed sizes), plus unique terms
	FamSparse     // 4096..66000 mostly empty documents under chunk sizes 1..16: chunk tables with thousands of entries
	FamGiant      // 18..40 documents with 0.5-1 MiB incompressible stored values: data section > 16 MiB
	FamAligned    // a small batch padded so that the persisted data section is an exact multiple of 256 / 4096 / 32768 / 65536 bytes
	FamDVGaps     // >1024 documents, 2..4 doc-value fields each present in a few ranges only
	FamCounts     // statistics at their varint width boundaries: 127/128/16383/16384 documents carrying a field, total frequencies up to 2^61
)

// how a segment is held
const (
	holdBuilt = iota
	holdMem
	holdFile
	holdMmap // memory-backed by a READ-ONLY mapping of a file (the way an index opens its segments)
)

type CaseCfg struct {
	Family    int
	MaxDocs   int
	MaxDepth  int  // merge tree depth (0: built only)
	MaxIn     int  // max inputs of one merge
	NoBig     bool // block family: no multi-MiB stored values (merging such a block document by document decompresses it once per document: too slow for fault enumeration and the race detector)
	TailField bool // FamDVGaps: may add the DV-less last field of DVGapsParams.Tail (C12Wide only; other users keep their draws)
	HoldAny   bool // draw built / loaded-mem / loaded-file; otherwise built (leaves) and loaded-mem (merges)
}

// maxChunks computes, for the expectation and chunk mode, the largest number
// of chunks any posting list spans.
func maxChunks(x *XSeg, mode uint32) int {
	best := 0
	for _, terms := range x.Post {
		for _, pl := range terms {
			if len(pl) == 0 {
				continue
			}
			var size uint64
			if mode <= 1024 {
				size = uint64(mode)
			} else {
				size = uint64(x.N) / (uint64(len(pl))/1024 + 1)
			}
			if size == 0 {
				continue
			}
			seen := map[uint64]bool{}
			for _, p := range pl {
				seen[p.Doc/size] = true
			}
			if len(seen) > best {
				best = len(seen)
			}
		}
	}
	return best
}

func batchLabels(b Batch, sc *SegCase) {
	for di := range b {
		names := map[string]int{}
		for fi := range b[di].Fields {
			f := &b[di].Fields[fi]
			names[f.Name]++
			if names[f.Name] == 2 {
				sc.label("repeated-field")
			}
			seenT := map[string]bool{}
			for ti := range f.Terms {
				tm := &f.Terms[ti]
				if seenT[tm.T] {
					sc.label("term-twice-in-field")
				}
				seenT[tm.T] = true
				if tm.T == "" {
					sc.label("empty-term")
				}
				if strings.ContainsAny(tm.T, "\x00\xff\xfe") {
					sc.label("binary-term")
				}
				for _, l := range tm.Locs {
					if l.Field != "" && l.Field != f.Name {
						sc.label("loc-other-field")
					}
				}
			}
		}
	}
}

// Prelude optionally runs a few legitimate uses of the library that touch its
// shared state (package-level singletons, pools) before the case is checked:
// none of them may change what any segment answers.
func Prelude(t *rapid.T, c *SegCase, sc *Scenario, label string) {
	if rapid.IntRange(0, 3).Draw(t, label+":prelude") != 0 {
		return
	}
	n := rapid.IntRange(1, 2).Draw(t, label+":nPrelude")
	for i := 0; i < n; i++ {
		kind := rapid.IntRange(0, 5).Draw(t, label+":preludeKind")
		_ = safely("prelude", func() error {
			switch kind {
			case 0: // DocsMatchingTerms over present and absent terms
				var list []segment.Term
				for _, f := range c.Exp.Fields {
					for _, tm := range sortedKeys(c.Exp.Post[f]) {
						list = append(list, ftTerm{f, tm})
					}
				}
				list = append(list, ftTerm{UnknownField, "x"}, ftTerm{"a", "absent"})
				_, err := c.Seg.DocsMatchingTerms(list)
				return err
			case 1: // the prealloc reuse idiom over hits and misses, stopping early
				var pl segment.PostingsList
				var it segment.PostingsIterator
				for _, f := range c.Exp.Fields {
					d, err := c.Seg.Dictionary(f)
					if err != nil {
						return err
					}
					for _, tm := range append(sortedKeys(c.Exp.Post[f]), "absent") {
						if pl, err = d.PostingsList([]byte(tm), nil, pl); err != nil {
							return err
						}
						if it, err = pl.Iterator(true, true, true, it); err != nil {
							return err
						}
						if _, err = it.Next(); err != nil {
							return err
						}
					}
				}
			case 2: // a failed persist
				_, _ = c.Seg.WriteTo(&failAfter{k: rapid.IntRange(0, 200).Draw(t, label+":preludeFailAt")}, nil)
			case 3: // a merge cancelled when the first bytes reach the writer
				return cancelledMerge(c.Seg)
			case 4: // a build of an unrelated batch
				_, err := Build(GenBatch(t, sc, 4), sc.Norm, 1025)
				return err
			default: // a stored visit stopped early + a doc-value visit
				if c.Exp.N > 0 {
					_ = c.Seg.VisitStoredFields(uint64(c.Exp.N-1), func(string, []byte) bool { return false })
					r, err := c.Seg.DocumentValueReader(c.Exp.Fields)
					if err != nil {
						return err
					}
					return r.VisitDocumentValues(0, func(string, []byte) {})
				}
			}
			return nil
		})
		c.label("prelude")
	}
}

// GenLeaf draws and builds one batch.
func GenLeaf(t *rapid.T, ctx *Ctx, sc *Scenario, cfg CaseCfg, label string) (*SegCase, error) {
	var b Batch
	var desc string
	switch cfg.Family {
	case FamBlocks:
		p := GenBlocks(t)
		if cfg.NoBig {
			p.BigLen, p.BigAt = 0, 0
		}
		b, desc = p.Batch(sc), p.String()
	case FamWide:
		p := GenWide(t)
		b, desc = p.Batch(sc), p.String()
	case FamHuge:
		p := GenWide(t)
		p.N = rapid.SampledFrom([]int{65535, 65537, 66000, 70001, 131073, 131200, 140000}).Draw(t, "hugeN")
		p.DenseExact, p.GapField = 0, 0
		if p.N > 131072 {
			// one posting list with more than 2^17 hits: the dense term in every document
			p.DenseSkip, p.NoFieldPer, p.ALo, p.AHi = 0, 0, 0, 0
		}
		if rapid.Bool().Draw(t, "hugeGap") {
			p.GapField = rapid.SampledFrom([]int{65536, 65000, 66000}).Draw(t, "hugeGapStart")
			if p.GapField >= p.N {
				p.GapField = p.N - 2
			}
		}
		b, desc = p.Batch(sc), p.String()
	case FamCounts:
		p := GenCounts(t)
		b, desc = p.Batch(sc), p.String()
	case FamSparse:
		p := GenSparse(t)
		b, desc = p.Batch(sc), p.String()
	case FamDVGaps:
		p := GenDVGaps(t)
		if cfg.TailField {
			p.Tail = rapid.Bool().Draw(t, "dvTailField")
		}
		b, desc = p.Batch(sc), p.String()
	case FamTerms:
		b = manyTermsBatch(t, label)
		desc = fmt.Sprintf("many-terms{%d docs x %d terms}", len(b), len(b[0].Fields[0].Terms))
	case FamBig:
		b = GenBatchBig(t, sc)
		desc = fmt.Sprintf("big{%d docs, %d stored bytes each}", len(b), len(b[0].Fields[len(b[0].Fields)-1].Value))
	case FamManyFields:
		b = GenBatchManyFields(t, sc)
		desc = b[1:].String() + fmt.Sprintf(" (+doc0 defining %d fields)", len(b[0].Fields))
	case FamMid:
		b = genPostingBatch(t, sc)
		desc = "posting-batch " + b.String()
	case FamGiant:
		b = GenBatchGiant(t, sc)
		desc = fmt.Sprintf("giant{%d docs, %d stored bytes each}", len(b), len(b[0].Fields[1].Value))
	case FamAligned:
		b = GenBatch(t, sc, 4)
		desc = b.String()
	default:
		b = GenBatch(t, sc, cfg.MaxDocs)
		desc = b.String()
	}
	modes := ChunkModes
	if cfg.Family == FamWide || cfg.Family == FamHuge || cfg.Family == FamDVGaps {
		modes = []uint32{1025, 1025, 1024, 100, 7}
	}
	if cfg.Family == FamSparse {
		modes = SparseModes
	}
	mode := rapid.SampledFrom(modes).Draw(t, label+":mode")
	if cfg.Family != FamSparse && rapid.IntRange(0, 5).Draw(t, label+":anyMode") == 0 {
		mode = uint32(rapid.IntRange(1, 1024).Draw(t, label+":modeValue")) // any fixed chunk size
	}
	if cfg.Family == FamSparse && len(b) >= 131072 && rapid.IntRange(0, 2).Draw(t, label+":chunkNumbersBeyond16Bits") > 0 {
		mode = 2 // chunk numbers of 65536 and more, each chunk holding up to two postings
	}
	if !HooksOn {
		mode = 1025
	}
	aligned := 0
	if cfg.Family == FamAligned {
		align := rapid.SampledFrom([]int{256, 4096, 32768, 32768, 65536}).Draw(t, label+":align")
		var ok bool
		b, aligned, ok = AlignBatch(b, sc.Norm, mode, align, uint64(rapid.IntRange(1, 1000).Draw(t, label+":alignSeed")))
		desc += fmt.Sprintf(" +stored padding in the last document: data section %d bytes = %d x %d (converged=%v)", aligned, aligned/align, align, ok)
	}
	seg, err := Build(b, sc.Norm, mode)
	if err != nil {
		return nil, fmt.Errorf("building %s (mode %d): %v", desc, mode, err)
	}
	c := &SegCase{Seg: seg, Exp: Expect(b, sc.Norm.F), Docs: b, Mode: mode,
		Desc: fmt.Sprintf("built(mode=%d){%s}", mode, desc)}
	batchLabels(b, c)
	if aligned > 0 {
		c.label("data-section-size-aligned")
	}
	if maxChunks(c.Exp, mode) >= 2 {
		c.label("multi-chunk")
	}
	for _, terms := range c.Exp.Post {
		for _, pl := range terms {
			if len(pl) >= 1024 {
				c.label("term>=1024-hits")
			}
		}
	}
	hold := holdBuilt
	if cfg.HoldAny {
		hold = rapid.IntRange(holdBuilt, holdMmap).Draw(t, label+":hold")
	}
	if hold != holdBuilt {
		if err := c.reload(ctx, hold); err != nil {
			return nil, err
		}
	}
	if cfg.Family != FamWide && cfg.Family != FamHuge && cfg.Family != FamCounts && cfg.Family != FamSparse && cfg.Family != FamDVGaps && cfg.Family != FamGiant {
		Prelude(t, c, sc, label)
	}
	return c, nil
}

func (c *SegCase) reload(ctx *Ctx, hold int) error {
	if c.Bytes == nil {
		bs, err := Persist(c.Seg)
		if err != nil {
			return fmt.Errorf("persisting %s: %v", c.Desc, err)
		}
		c.Bytes = bs
	}
	var err error
	if hold == holdFile {
		c.Seg, err = ctx.LoadFile(c.Bytes)
		c.Desc = "loadedFile:" + c.Desc
		c.label("file-backed")
	} else if hold == holdMmap {
		c.Seg, err = ctx.LoadMmap(c.Bytes)
		c.Desc = "loadedReadOnlyMapping:" + c.Desc
		c.label("read-only-mapping")
	} else {
		c.Seg, err = LoadMem(c.Bytes)
		c.Desc = "loadedMem:" + c.Desc
		c.label("memory-loaded")
	}
	if err != nil {
		return fmt.Errorf("loading %s: %v", c.Desc, err)
	}
	return nil
}

// MergeCases merges the given cases with the given drops and output mode and
// returns the merged case (loaded from the merger's bytes).
func MergeCases(ctx *Ctx, ins []*SegCase, drops []*roaring.Bitmap, mode uint32, hold int) (*SegCase, [][]uint64, error) {
	segs := make([]segment.Segment, len(ins))
	exps := make([]*XSeg, len(ins))
	var descs []string
	for i, in := range ins {
		segs[i] = in.Seg
		exps[i] = in.Exp
		descs = append(descs, fmt.Sprintf("%s drop=%s", in.Desc, bmString(drops[i])))
	}
	desc := fmt.Sprintf("merge(mode=%d)[ %s ]", mode, strings.Join(descs, " || "))
	bs, maps, err := MergeBytes(segs, drops, mode)
	if err != nil {
		return nil, nil, fmt.Errorf("%s: %v", desc, err)
	}
	exp, _ := MergeExpect(exps, drops)
	c := &SegCase{Exp: exp, Bytes: bs, Mode: mode, Merged: true, Desc: desc}
	for si, in := range ins {
		for l := range in.Labels {
			c.label(l)
		}
		for d := range in.Docs {
			if drops[si] == nil || !drops[si].Contains(uint32(d)) {
				c.Docs = append(c.Docs, in.Docs[d])
			}
		}
		if in.Merged {
			c.label("merged-input")
		}
	}
	if hold == holdBuilt {
		hold = holdMem
	}
	if err := c.reload(ctx, hold); err != nil {
		return nil, nil, err
	}
	return c, maps, nil
}

// mergeLabels classifies a merge.
func mergeLabels(c *SegCase, ins []*SegCase, drops []*roaring.Bitmap) {
	sameFields := true
	anyDrop, anySurv := false, false
	for i, in := range ins {
		if fmt.Sprint(in.Exp.Fields) != fmt.Sprint(ins[0].Exp.Fields) {
			sameFields = false
		}
		nd := uint64(0)
		if drops[i] != nil {
			nd = drops[i].GetCardinality()
		}
		if nd > 0 {
			anyDrop = true
		}
		if nd < uint64(in.Exp.N) {
			anySurv = true
		}
	}
	if !sameFields {
		c.label("field-remap")
		c.label("reencode-path")
	}
	for i := range ins {
		noDrops := drops[i] == nil || drops[i].IsEmpty()
		if sameFields && noDrops && ins[i].Exp.N > 0 {
			c.label("copy-path")
		} else if ins[i].Exp.N > 0 {
			c.label("reencode-path")
		}
	}
	if anyDrop && anySurv {
		c.label("drop+survivor")
	}
	if c.Exp.N == 0 {
		c.label("zero-survivors")
	}
	// term vanishes: a term of an input has no survivor
	for _, in := range ins {
		for f, terms := range in.Exp.Post {
			for tm, pl := range terms {
				if len(pl) > 0 && len(c.Exp.Post[f][tm]) == 0 {
					c.label("term-vanishes")
				}
			}
		}
	}
	for _, terms := range c.Exp.Post {
		for _, pl := range terms {
			if len(pl) == 1 && pl[0].Freq == 1 && len(pl[0].Locs) == 0 {
				c.label("1-hit-produced")
			}
		}
	}
	for _, in := range ins {
		if in.Labels["1-hit-produced"] && in.Merged {
			c.label("1-hit-consumed")
		}
	}
	if maxChunks(c.Exp, c.Mode) >= 2 {
		c.label("multi-chunk-output")
	}
	if len(ins) >= 2 {
		c.label("multi-input")
	}
	if len(ins) >= 4 {
		c.label(">=4-inputs")
	}
}

// GenCase draws a segment case: a leaf or a tree of merges.
func GenCase(t *rapid.T, ctx *Ctx, sc *Scenario, cfg CaseCfg, depth int, label string) (*SegCase, error) {
	if depth <= 0 || !rapid.Bool().Draw(t, label+":isMerge") {
		return GenLeaf(t, ctx, sc, cfg, label)
	}
	return GenMerge(t, ctx, sc, cfg, depth, label)
}

// GenMerge draws 1..MaxIn inputs (each a case of smaller depth), drops and an
// output chunk mode, and merges.
func GenMerge(t *rapid.T, ctx *Ctx, sc *Scenario, cfg CaseCfg, depth int, label string) (*SegCase, error) {
	k := rapid.IntRange(1, cfg.MaxIn).Draw(t, label+":nIn")
	if cfg.Family == FamSmall && cfg.MaxIn >= 3 && rapid.IntRange(0, 14).Draw(t, label+":manyInputs") == 0 {
		k = rapid.IntRange(4, 12).Draw(t, label+":nInMany") // many inputs in one merge
	}
	if cfg.Family == FamSmall && rapid.IntRange(0, 39).Draw(t, label+":noInputs") == 0 {
		k = 0 // a merge of nothing: an empty segment
	}
	ins := make([]*SegCase, k)
	drops := make([]*roaring.Bitmap, k)
	for i := range ins {
		var err error
		if i > 0 && cfg.Family != FamHuge && rapid.IntRange(0, 7).Draw(t, fmt.Sprintf("%s.%d:sameAgain", label, i)) == 0 {
			// the very same segment object a second time in one input list (with its own deletions)
			ins[i] = ins[rapid.IntRange(0, i-1).Draw(t, fmt.Sprintf("%s.%d:sameAs", label, i))]
		} else if i > 0 && (cfg.Family == FamSmall || cfg.Family == FamMid) && rapid.IntRange(0, 7).Draw(t, fmt.Sprintf("%s.%d:mirror", label, i)) == 0 {
			// a segment with the same byte layout as an earlier input but other content: the earlier input's
			// documents in reversed order, built with the same chunk mode (every section at the same offset)
			src := ins[rapid.IntRange(0, i-1).Draw(t, fmt.Sprintf("%s.%d:mirrorOf", label, i))]
			rev := make(Batch, len(src.Docs))
			for d := range src.Docs {
				rev[len(rev)-1-d] = src.Docs[d]
			}
			what := "reversed documents of an earlier input"
			has := map[string]bool{}
			for _, f := range src.Exp.Fields {
				has[f] = true
			}
			// (only when the scenario never gives "a,b" doc values: the renamed instances carry the terms of "a" and
			// "b", which may contain 0xff, and per-field doc-value flags must stay uniform for the rebuild oracle)
			if has["a"] && has["b"] && !has["a,b"] && sc.Schema["a,b"] == dvNever && rapid.Bool().Draw(t, fmt.Sprintf("%s.%d:mergeNames", label, i)) {
				// ... and with the fields "a" and "b" both renamed to "a,b": another field list that reads the same
				// when its names are joined with commas
				what = "documents of an earlier input with fields a and b renamed to \"a,b\""
				rev = make(Batch, len(src.Docs))
				for d := range src.Docs {
					for _, f := range src.Docs[d].Fields {
						g := f
						if g.Name == "a" || g.Name == "b" {
							g.Name = "a,b"
							g.DV = false
						}
						g.Terms = append([]Term{}, f.Terms...)
						for ti := range g.Terms {
							g.Terms[ti].Locs = append([]Loc{}, f.Terms[ti].Locs...)
							for li := range g.Terms[ti].Locs {
								if n := g.Terms[ti].Locs[li].Field; n == "a" || n == "b" {
									g.Terms[ti].Locs[li].Field = "a,b"
								}
							}
						}
						rev[d].Fields = append(rev[d].Fields, g)
					}
				}
			}
			if !contractValid(rev) {
				rev = Batch{}
			}
			seg, err := Build(rev, sc.Norm, src.Mode)
			if err != nil {
				return nil, fmt.Errorf("building mirrored input: %v", err)
			}
			ins[i] = &SegCase{Seg: seg, Exp: Expect(rev, sc.Norm.F), Docs: rev, Mode: src.Mode, Desc: fmt.Sprintf("built(mode=%d){%s: %s}", src.Mode, what, rev.String())}
			batchLabels(rev, ins[i])
			ins[i].label("mirrored-input")
			if rapid.Bool().Draw(t, fmt.Sprintf("%s.%d:mirrorLoaded", label, i)) {
				if err := ins[i].reload(ctx, holdMem); err != nil {
					return nil, err
				}
			}
		} else {
			ins[i], err = GenCase(t, ctx, sc, cfg, depth-1, fmt.Sprintf("%s.%d", label, i))
			if err != nil {
				return nil, err
			}
		}
		drops[i] = GenDrops(t, ins[i].Exp.N, fmt.Sprintf("%s.%d", label, i))
		if cfg.Family == FamHuge && ins[i].Exp.N > 131072 && rapid.IntRange(0, 2).Draw(t, fmt.Sprintf("%s.%d:keepMost", label, i)) > 0 {
			// keep more than 2^17 survivors: at most a handful of deletions
			bm := roaring.New()
			for k := rapid.IntRange(0, 3).Draw(t, fmt.Sprintf("%s.%d:fewDrops", label, i)); k > 0; k-- {
				bm.Add(uint32(rapid.IntRange(0, ins[i].Exp.N-1).Draw(t, fmt.Sprintf("%s.%d:fewDrop", label, i))))
			}
			drops[i] = bm
		}
	}
	modes := ChunkModes
	if cfg.Family == FamWide || cfg.Family == FamHuge || cfg.Family == FamDVGaps {
		modes = []uint32{1025, 1025, 1024, 100, 7}
	}
	if cfg.Family == FamSparse {
		modes = SparseModes
	}
	mode := rapid.SampledFrom(modes).Draw(t, label+":outMode")
	if cfg.Family != FamSparse && rapid.IntRange(0, 5).Draw(t, label+":anyOutMode") == 0 {
		mode = uint32(rapid.IntRange(1, 1024).Draw(t, label+":outModeValue"))
	}
	if !HooksOn {
		mode = 1025
	}
	hold := holdMem
	if cfg.HoldAny {
		hold = rapid.IntRange(holdMem, holdMmap).Draw(t, label+":hold")
	}
	c, _, err := MergeCases(ctx, ins, drops, mode, hold)
	if err != nil {
		return nil, err
	}
	mergeLabels(c, ins, drops)
	if cfg.Family != FamWide && cfg.Family != FamHuge && cfg.Family != FamCounts && cfg.Family != FamSparse && cfg.Family != FamDVGaps && cfg.Family != FamGiant {
		Prelude(t, c, sc, label)
	}
	return c, nil
}

// contractValid says whether the batch by itself satisfies the builder's
// input contract (every location field name is empty or names a field of the
// batch).
func contractValid(b Batch) bool {
	names := map[string]bool{}
	for di := range b {
		for fi := range b[di].Fields {
			names[b[di].Fields[fi].Name] = true
		}
	}
	for di := range b {
		for fi := range b[di].Fields {
			for ti := range b[di].Fields[fi].Terms {
				for _, l := range b[di].Fields[fi].Terms[ti].Locs {
					if l.Field != "" && !names[l.Field] {
						return false
					}
				}
			}
		}
	}
	return true
}
