//go:build !verif

package harness

import (
	"bufio"
	"io"

	"github.com/RoaringBitmap/roaring"
	segment "github.com/blugelabs/bluge_segment_api"
	ice "github.com/blugelabs/ice/v2"
)

// Fallback when ice's verif-tagged hook file does not compile (e.g. an
// internal was renamed): public API only, the chunk mode is always the
// adaptive default.
const HooksOn = false

func hookNew(docs []segment.Document, norm func(string, int) float32, _ uint32) (segment.Segment, uint64, error) {
	return ice.New(docs, norm)
}

func hookMerge(segs []segment.Segment, drops []*roaring.Bitmap, w io.Writer, _ uint32, closeCh chan struct{}) ([][]uint64, uint64, error) {
	m := ice.Merge(segs, drops, 4096)
	bw := bufio.NewWriter(w)
	n, err := m.WriteTo(bw, closeCh)
	if err != nil {
		return nil, 0, err
	}
	if err := bw.Flush(); err != nil {
		return nil, 0, err
	}
	return m.DocumentNumbers(), uint64(n), nil
}

func hookPoolHoldsUsed() (bool, bool) { return false, false }
