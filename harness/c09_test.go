package harness

import (
	"fmt"
	"os"
	"path/filepath"
	"runtime"
	"strings"
	"sync"
	"testing"

	segment "github.com/blugelabs/bluge_segment_api"
	"pgregory.net/rapid"
)

// C09 — a segment is safe for concurrent and re-entrant readers, also during a merge.
const c09RuleConc = "concurrent programs: a COLD segment per case (freshly loaded, lazy FST loading in play; memory- or file-backed; small / block families) read by 2..8 goroutines, each running a drawn list of " +
	"read calls (dictionary enumeration, postings walk, stored visit, doc-value visits with a goroutine-local reader, DocsMatchingTerms, stats, persist, a merge that has the segment as input), released by a start barrier, " +
	"with drawn runtime.Gosched() points inside visitor callbacks; oracle = every call's result equals the same call on a twin segment loaded from the same bytes and used sequentially, and the binary is built with -race " +
	"(any DATA RACE report with an ice frame is a violation); non-trivial = >=2 goroutines issue stored-field or first-touch dictionary calls, or a merge overlaps a reader; distinct = hash of case text + program"

const c09RuleNest = "nesting programs: inside the callback of a stored-field or doc-value visit, perform further reads (stored fields of a document in another block, dictionary, postings, doc values), nested to depth <=3; " +
	"values are copied at callback entry; oracle = outer and inner visits deliver exactly the model's values; non-trivial = a nested stored-field visit targets a different 128-document block than the outer one while the outer " +
	"document still has values to deliver, or nesting depth >=2; distinct = hash of case text + plan"

// currentCase is written before every concurrent case so that a race report
// (which the runtime prints without knowing about rapid) can be attributed.
func noteCurrentCase(desc string) {
	if dir := os.Getenv("VERIF_STATS_DIR"); dir != "" {
		_ = os.WriteFile(filepath.Join(dir, "current_case.txt"), []byte(desc), 0o644)
	}
}

func c09ConcProp(st *CaseStats, fam int) func(t *rapid.T) {
	return func(t *rapid.T) {
		ctx := &Ctx{}
		defer ctx.Close()
		sc := GenScenario(t)
		c, err := GenCase(t, ctx, sc, CaseCfg{Family: fam, MaxDocs: 8, MaxIn: 2, NoBig: true}, rapid.SampledFrom([]int{0, 0, 1}).Draw(t, "depth"), "c")
		if err != nil {
			t.Fatalf("%s: %v", sc, err)
		}
		bs := c.Bytes
		if bs == nil {
			if bs, err = Persist(c.Seg); err != nil {
				t.Fatalf("%s: %v", sc, err)
			}
		}
		fileBacked := rapid.Bool().Draw(t, "fileBacked")
		load := func() segment.Segment {
			var s segment.Segment
			var err error
			if fileBacked {
				s, err = ctx.LoadFile(bs)
			} else {
				s, err = LoadMem(bs)
			}
			if err != nil {
				t.Fatalf("%s: %v", sc, err)
			}
			return s
		}
		twin := load()
		cold := load()
		g := rapid.IntRange(2, 8).Draw(t, "goroutines")
		progs := make([][]rop, g)
		yields := make([][]bool, g)
		want := make([][]string, g)
		storedOrDict := 0
		mergers := 0
		for i := range progs {
			progs[i] = genRops(t, c)
			yields[i] = make([]bool, len(progs[i]))
			env := &ropEnv{seg: twin, dvr: map[string]segment.DocumentValueReader{}}
			touched := false
			for j, o := range progs[i] {
				yields[i][j] = rapid.Bool().Draw(t, "yield")
				res, err := o.run(env)
				if err != nil {
					t.Fatalf("%s %s: sequential twin call %s: %v", sc, c.Desc, o, err)
				}
				want[i] = append(want[i], res)
				if o.kind <= 2 || o.kind == 4 {
					touched = true
				}
				if o.kind == 6 {
					mergers++
				}
			}
			if touched {
				storedOrDict++
			}
		}
		gmp := rapid.SampledFrom([]int{2, 4, 16}).Draw(t, "gomaxprocs")
		desc := fmt.Sprintf("%s %s fileBacked=%v GOMAXPROCS=%d programs=%v", sc, c.Desc, fileBacked, gmp, progs)
		noteCurrentCase(desc)
		old := runtime.GOMAXPROCS(gmp)
		defer runtime.GOMAXPROCS(old)
		got := make([][]string, g)
		errs := make([]error, g)
		var wg sync.WaitGroup
		start := make(chan struct{})
		for i := range progs {
			wg.Add(1)
			go func(i int) {
				defer wg.Done()
				env := &ropEnv{seg: cold, dvr: map[string]segment.DocumentValueReader{}}
				<-start
				for j, o := range progs[i] {
					env.yield = yields[i][j]
					res, err := o.run(env)
					if err != nil {
						errs[i] = fmt.Errorf("goroutine %d call #%d %s: %v", i, j, o, err)
						return
					}
					got[i] = append(got[i], res)
				}
			}(i)
		}
		close(start)
		wg.Wait()
		for i := range progs {
			if errs[i] != nil {
				t.Fatalf("%s:\n  %v", desc, errs[i])
			}
			for j := range progs[i] {
				if got[i][j] != want[i][j] {
					t.Fatalf("%s:\n  goroutine %d call #%d %s returned %q under concurrency, %q when used alone", desc, i, j, progs[i][j], got[i][j], want[i][j])
				}
			}
		}
		var labels []string
		if mergers > 0 {
			labels = append(labels, "merge-overlaps-readers")
		}
		if fileBacked {
			labels = append(labels, "file-backed")
		}
		nt := storedOrDict >= 2 || mergers > 0
		st.Record(desc, nt, labels...)
	}
}

// ---- nesting ----

type nestPlan struct {
	kind   int // 0 stored visit, 1 doc-value visit, 2 dictionary+postings walk of a field
	doc    uint64
	fields []string
	field  string
	at     int // run the inner plans at this callback index
	inner  []*nestPlan
}

func (p *nestPlan) String() string {
	var s string
	switch p.kind {
	case 0:
		s = fmt.Sprintf("stored(%d)", p.doc)
	case 1:
		s = fmt.Sprintf("dv(%q,%d)", p.fields, p.doc)
	default:
		s = fmt.Sprintf("walk(%q)", p.field)
	}
	if len(p.inner) > 0 {
		var in []string
		for _, x := range p.inner {
			in = append(in, x.String())
		}
		s += fmt.Sprintf("{at callback %d: %s}", p.at, strings.Join(in, ", "))
	}
	return s
}

func genNestPlan(t *rapid.T, c *SegCase, depth int, storedDocs []int) *nestPlan {
	p := &nestPlan{}
	k := rapid.IntRange(0, 5).Draw(t, "nestKind")
	switch {
	case k <= 2 || depth == 0 && k <= 3:
		p.kind = 0
		var multi []int
		for _, d := range storedDocs {
			if len(c.Exp.Stored[d]) >= 2 {
				multi = append(multi, d)
			}
		}
		if depth == 0 && len(multi) > 0 && rapid.IntRange(0, 2).Draw(t, "multiDoc") > 0 {
			p.doc = uint64(rapid.SampledFrom(multi).Draw(t, "md"))
		} else if len(storedDocs) > 0 && rapid.IntRange(0, 4).Draw(t, "storedDoc") > 0 {
			p.doc = uint64(rapid.SampledFrom(storedDocs).Draw(t, "sd"))
		} else if c.Exp.N > 0 {
			p.doc = uint64(rapid.IntRange(0, c.Exp.N-1).Draw(t, "d"))
		}
	case k <= 4:
		p.kind = 1
		if c.Exp.N > 0 {
			p.doc = uint64(rapid.IntRange(0, c.Exp.N-1).Draw(t, "d"))
		}
		p.fields = rapid.SliceOfN(rapid.SampledFrom(c.Exp.Fields), 1, 3).Draw(t, "dvFields")
	default:
		p.kind = 2
		p.field = rapid.SampledFrom(c.Exp.Fields).Draw(t, "walkField")
	}
	if depth < 3 && p.kind != 2 && rapid.IntRange(0, 5-depth).Draw(t, "nest") > 0 {
		p.at = rapid.SampledFrom([]int{0, 0, 0, 1}).Draw(t, "at")
		n := rapid.IntRange(1, 2).Draw(t, "nInner")
		for i := 0; i < n; i++ {
			p.inner = append(p.inner, genNestPlan(t, c, depth+1, storedDocs))
		}
	}
	return p
}

type nestStats struct {
	maxDepth       int
	crossBlockLive bool
}

func runNest(seg segment.Segment, exp *XSeg, p *nestPlan, depth int, ns *nestStats) error {
	if depth > ns.maxDepth {
		ns.maxDepth = depth
	}
	switch p.kind {
	case 0:
		var got []XStored
		var innerErr error
		err := seg.VisitStoredFields(p.doc, func(f string, v []byte) bool {
			got = append(got, XStored{f, string(v)}) // copied at callback entry
			if len(got)-1 == p.at && innerErr == nil {
				for _, in := range p.inner {
					if in.kind == 0 && in.doc/128 != p.doc/128 && p.doc < uint64(exp.N) && len(exp.Stored[p.doc]) > len(got) {
						ns.crossBlockLive = true
					}
					if e := runNest(seg, exp, in, depth+1, ns); e != nil {
						innerErr = e
						break
					}
				}
			}
			return true
		})
		if innerErr != nil {
			return innerErr
		}
		if err != nil {
			return fmt.Errorf("%s: %v", p, err)
		}
		var want []XStored
		if p.doc < uint64(exp.N) {
			want = exp.Stored[p.doc]
		}
		if len(got) != len(want) {
			return fmt.Errorf("%s delivered %q, expected %q", p, got, want)
		}
		for i := range want {
			if got[i] != want[i] {
				return fmt.Errorf("%s delivered %q, expected %q", p, got, want)
			}
		}
	case 1:
		type kv struct{ f, t string }
		var got []kv
		var innerErr error
		r, err := seg.DocumentValueReader(p.fields)
		if err != nil {
			return err
		}
		err = r.VisitDocumentValues(p.doc, func(f string, tm []byte) {
			got = append(got, kv{f, string(tm)})
			if len(got)-1 == p.at && innerErr == nil {
				for _, in := range p.inner {
					if e := runNest(seg, exp, in, depth+1, ns); e != nil {
						innerErr = e
						break
					}
				}
			}
		})
		if innerErr != nil {
			return innerErr
		}
		if err != nil {
			return fmt.Errorf("%s: %v", p, err)
		}
		var want []kv
		for _, f := range p.fields {
			if per := exp.DV[f]; per != nil && int(p.doc) < len(per) {
				for _, tm := range per[p.doc] {
					want = append(want, kv{f, tm})
				}
			}
		}
		if fmt.Sprint(got) != fmt.Sprint(want) {
			return fmt.Errorf("%s delivered %q, expected %q", p, got, want)
		}
	default:
		d, err := seg.Dictionary(p.field)
		if err != nil {
			return err
		}
		for _, tm := range sortedKeys(exp.Post[p.field]) {
			pl, err := d.PostingsList([]byte(tm), nil, nil)
			if err != nil {
				return err
			}
			ps, err := WalkPostings(pl, true, true, true)
			if err != nil {
				return err
			}
			if df := postingsDiff(exp.Post[p.field][tm], ps); df != "" {
				return fmt.Errorf("%s term %q: %s", p, tm, df)
			}
		}
	}
	return nil
}

func c09NestProp(st *CaseStats, fam int) func(t *rapid.T) {
	return func(t *rapid.T) {
		ctx := &Ctx{}
		defer ctx.Close()
		sc := GenScenario(t)
		c, err := GenCase(t, ctx, sc, CaseCfg{Family: fam, MaxDocs: 8, MaxIn: 2, HoldAny: true}, rapid.SampledFrom([]int{0, 0, 1}).Draw(t, "depth"), "c")
		if err != nil {
			t.Fatalf("%s: %v", sc, err)
		}
		var storedDocs []int
		for d, s := range c.Exp.Stored {
			if len(s) > 0 {
				storedDocs = append(storedDocs, d)
			}
		}
		cancelledFirst := false
		if rapid.IntRange(0, 2).Draw(t, "cancelledMergeFirst") == 0 {
			// a cancelled merge of the segment (pooled visit contexts) must not disturb later nested reads
			if _, err := (rop{kind: 8}).run(&ropEnv{seg: c.Seg, dvr: map[string]segment.DocumentValueReader{}}); err != nil {
				t.Fatalf("case %s %s: cancelled merge: %v", sc, c.Desc, err)
			}
			cancelledFirst = true
		}
		n := rapid.IntRange(1, 3).Draw(t, "nPlans")
		ns := &nestStats{}
		var plans []string
		for i := 0; i < n; i++ {
			p := genNestPlan(t, c, 0, storedDocs)
			plans = append(plans, p.String())
			err := safely("nested reads", func() error { return runNest(c.Seg, c.Exp, p, 0, ns) })
			if err != nil {
				t.Fatalf("case %s %s\n  plans %v: %v", sc, c.Desc, plans, err)
			}
		}
		var labels []string
		if ns.crossBlockLive {
			labels = append(labels, "nested-stored-visit-other-block-while-outer-has-more")
		}
		labels = append(labels, fmt.Sprintf("depth-%d", ns.maxDepth))
		if cancelledFirst {
			labels = append(labels, "after-cancelled-merge")
		}
		st.Record(fmt.Sprintf("%s %s plans=%v", sc, c.Desc, plans), ns.crossBlockLive || ns.maxDepth >= 2, labels...)
	}
}

func TestC09ConcSmall(t *testing.T) {
	st := NewStats("C09ConcSmall", c09RuleConc)
	defer st.Flush()
	rapid.Check(t, c09ConcProp(st, FamSmall))
}

func TestC09ConcBlocks(t *testing.T) {
	st := NewStats("C09ConcBlocks", c09RuleConc)
	defer st.Flush()
	rapid.Check(t, c09ConcProp(st, FamBlocks))
}

func TestC09NestSmall(t *testing.T) {
	st := NewStats("C09NestSmall", c09RuleNest)
	defer st.Flush()
	rapid.Check(t, c09NestProp(st, FamSmall))
}

func TestC09NestBlocks(t *testing.T) {
	st := NewStats("C09NestBlocks", c09RuleNest)
	defer st.Flush()
	rapid.Check(t, c09NestProp(st, FamBlocks))
}
