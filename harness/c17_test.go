package harness

import (
	"fmt"
	"reflect"
	"strings"
	"testing"

	"github.com/RoaringBitmap/roaring"
	segment "github.com/blugelabs/bluge_segment_api"
	"pgregory.net/rapid"
)

// C17 — merging is associative and has single-segment identity.
const c17Rule = "case = 2..5 segments with deletions + a drawn order-preserving bracketing (recursive partition into consecutive groups; deletions applied where a leaf is consumed OR deferred: the leaf is consumed without deletions and its deletions are translated through the reported document-number maps and applied at an outer merge; " +
	"intermediate results loaded from the merger's bytes; independent output chunk modes); oracle (metamorphic, no model) = flat merge and bracketed merge observationally identical on all facets " +
	"INCLUDING statistics, document-number maps compose, merge([M]) == M incl. statistics for a merged M, merge([B]) == B except statistics for a built B; " +
	"non-trivial = >=3 segments, >=1 drop and an intermediate result that contains a 1-hit term or a multi-chunk list; distinct = hash of case text + bracketing"

type mnode struct {
	c      *SegCase
	drops  *roaring.Bitmap  // only for raw leaves
	leafTo map[int][]uint64 // original leaf index -> mapping into this node's numbering
	shape  string
}

// mergeNodes merges the nodes. deferDrop[j] (optional) postpones node j's
// pending deletions: node j is consumed without deletions and its deletions
// are translated through the reported document-number map into the result's
// numbering, to be applied when the result itself is consumed.
func mergeNodes(ctx *Ctx, nodes []*mnode, mode uint32, deferDrop []bool) (*mnode, error) {
	ins := make([]*SegCase, len(nodes))
	drops := make([]*roaring.Bitmap, len(nodes))
	var shapes []string
	for i, n := range nodes {
		ins[i] = n.c
		if deferDrop == nil || !deferDrop[i] {
			drops[i] = n.drops
			shapes = append(shapes, n.shape)
		} else {
			shapes = append(shapes, n.shape+"~deferred")
		}
	}
	mc, maps, err := MergeCases(ctx, ins, drops, mode, holdMem)
	if err != nil {
		return nil, err
	}
	mergeLabels(mc, ins, drops)
	out := &mnode{c: mc, leafTo: map[int][]uint64{}, shape: "(" + strings.Join(shapes, " ") + ")"}
	for j, n := range nodes {
		if len(maps) != len(nodes) || len(maps[j]) != n.c.Exp.N {
			return nil, fmt.Errorf("DocumentNumbers shape wrong: %v", maps)
		}
		if deferDrop != nil && deferDrop[j] && n.drops != nil && !n.drops.IsEmpty() {
			if out.drops == nil {
				out.drops = roaring.New()
			}
			it := n.drops.Iterator()
			for it.HasNext() {
				nd := maps[j][it.Next()]
				if nd == DocDropped {
					return nil, fmt.Errorf("a document consumed without deletions was reported as dropped")
				}
				out.drops.Add(uint32(nd))
			}
		}
		for leaf, old := range n.leafTo {
			nm := make([]uint64, len(old))
			for d, v := range old {
				if v == DocDropped {
					nm[d] = DocDropped
				} else {
					nm[d] = maps[j][v]
				}
			}
			out.leafTo[leaf] = nm
		}
	}
	return out, nil
}

func genModeC17(t *rapid.T, label string) uint32 {
	if !HooksOn {
		return 1025
	}
	return rapid.SampledFrom(ChunkModes).Draw(t, label)
}

// bracket draws a recursive order-preserving bracketing of nodes[lo:hi).
func bracket(t *rapid.T, ctx *Ctx, leaves []*mnode, lo, hi int, top bool, interLabels map[string]bool) (*mnode, error) {
	if hi-lo == 1 {
		if !top && !rapid.Bool().Draw(t, "premergeSingle") {
			return leaves[lo], nil
		}
		var df []bool
		if !top {
			df = []bool{rapid.Bool().Draw(t, "deferSingle")}
		}
		n, err := mergeNodes(ctx, leaves[lo:hi], genModeC17(t, "modeSingle"), df)
		if err == nil && !top {
			for l := range n.c.Labels {
				interLabels[l] = true
			}
		}
		return n, err
	}
	// cut points
	var groups [][2]int
	start := lo
	for start < hi {
		maxLen := hi - start
		if start == lo && maxLen == hi-lo && hi-lo > 1 {
			maxLen = hi - lo - 1 // at least two groups
		}
		l := rapid.IntRange(1, maxLen).Draw(t, "groupLen")
		groups = append(groups, [2]int{start, start + l})
		start += l
	}
	var children []*mnode
	for _, g := range groups {
		ch, err := bracket(t, ctx, leaves, g[0], g[1], false, interLabels)
		if err != nil {
			return nil, err
		}
		children = append(children, ch)
	}
	var df []bool
	if !top {
		df = make([]bool, len(children))
		for i := range df {
			df[i] = rapid.IntRange(0, 2).Draw(t, "deferDrops") == 0
		}
	}
	n, err := mergeNodes(ctx, children, genModeC17(t, "modeGroup"), df)
	if err == nil && !top {
		if n.drops != nil {
			interLabels["deferred-deletions-translated"] = true
		}
		for l := range n.c.Labels {
			interLabels[l] = true
		}
	}
	return n, err
}

func c17Prop(st *CaseStats, fam int) func(t *rapid.T) {
	return func(t *rapid.T) {
		ctx := &Ctx{}
		defer ctx.Close()
		sc := GenScenario(t)
		k := rapid.IntRange(2, 5).Draw(t, "nSeg")
		if fam != FamSmall {
			k = rapid.IntRange(2, 3).Draw(t, "nSegBig")
		}
		leaves := make([]*mnode, k)
		anyDrop := false
		desc := sc.String()
		for i := range leaves {
			c, err := GenLeaf(t, ctx, sc, CaseCfg{Family: fam, MaxDocs: 6, HoldAny: true}, fmt.Sprintf("l%d", i))
			if err != nil {
				t.Fatalf("%s: %v", sc, err)
			}
			d := GenDrops(t, c.Exp.N, fmt.Sprintf("l%d", i))
			if d != nil && !d.IsEmpty() {
				anyDrop = true
			}
			id := make([]uint64, c.Exp.N)
			for x := range id {
				id[x] = uint64(x)
			}
			leaves[i] = &mnode{c: c, drops: d, leafTo: map[int][]uint64{i: id}, shape: fmt.Sprintf("%d", i)}
			desc += fmt.Sprintf(" L%d=%s drop=%s", i, c.Desc, bmString(d))
		}
		flat, err := mergeNodes(ctx, leaves, genModeC17(t, "modeFlat"), nil)
		if err != nil {
			t.Fatalf("%s: flat merge: %v", desc, err)
		}
		inter := map[string]bool{}
		br, err := bracket(t, ctx, leaves, 0, k, true, inter)
		if err != nil {
			t.Fatalf("%s: bracketed merge: %v", desc, err)
		}
		desc += " bracketing=" + br.shape
		of, err := Observe(flat.c.Seg, ProbeFields, AllFacets)
		if err != nil {
			t.Fatalf("%s: observing flat: %v", desc, err)
		}
		ob, err := Observe(br.c.Seg, ProbeFields, AllFacets)
		if err != nil {
			t.Fatalf("%s: observing bracketed: %v", desc, err)
		}
		if d := DiffObs(of, ob, AllFacets); d != "" {
			t.Fatalf("%s:\n  flat vs bracketed: %s", desc, d)
		}
		for i := 0; i < k; i++ {
			if !reflect.DeepEqual(flat.leafTo[i], br.leafTo[i]) {
				t.Fatalf("%s:\n  document numbers of leaf %d: flat %v, composed through the bracketing %v", desc, i, flat.leafTo[i], br.leafTo[i])
			}
		}
		// single-segment identity: merge([M]) == M including statistics
		idm, err := mergeNodes(ctx, []*mnode{{c: flat.c, leafTo: map[int][]uint64{}}}, genModeC17(t, "modeId"), nil)
		if err != nil {
			t.Fatalf("%s: identity merge: %v", desc, err)
		}
		oi, err := Observe(idm.c.Seg, ProbeFields, AllFacets)
		if err != nil {
			t.Fatalf("%s: observing merge([M]): %v", desc, err)
		}
		if d := DiffObs(of, oi, AllFacets); d != "" {
			t.Fatalf("%s:\n  M vs merge([M]): %s", desc, d)
		}
		// merge([B]) == B for a built B on all facets except statistics
		bi := rapid.IntRange(0, k-1).Draw(t, "builtIdx")
		bb, _, err := MergeBytes([]segment.Segment{leaves[bi].c.Seg}, []*roaring.Bitmap{nil}, genModeC17(t, "modeB"))
		if err != nil {
			t.Fatalf("%s: merge([B]): %v", desc, err)
		}
		bseg, err := LoadMem(bb)
		if err != nil {
			t.Fatalf("%s: loading merge([B]): %v", desc, err)
		}
		o1, err := Observe(leaves[bi].c.Seg, ProbeFields, NoStats)
		if err != nil {
			t.Fatalf("%s: %v", desc, err)
		}
		o2, err := Observe(bseg, ProbeFields, NoStats)
		if err != nil {
			t.Fatalf("%s: %v", desc, err)
		}
		if d := DiffObs(o1, o2, NoStats); d != "" {
			t.Fatalf("%s:\n  B vs merge([B]) for leaf %d: %s", desc, bi, d)
		}
		var labels []string
		for l := range inter {
			labels = append(labels, "intermediate:"+l)
		}
		nt := k >= 3 && anyDrop && (inter["1-hit-produced"] || inter["multi-chunk-output"])
		st.Record(desc, nt, labels...)
	}
}

func TestC17Small(t *testing.T) {
	st := NewStats("C17Small", c17Rule)
	defer st.Flush()
	rapid.Check(t, c17Prop(st, FamSmall))
}

func TestC17Wide(t *testing.T) {
	st := NewStats("C17Wide", c17Rule)
	defer st.Flush()
	rapid.Check(t, c17Prop(st, FamWide))
}

func TestC17ManyFields(t *testing.T) {
	st := NewStats("C17ManyFields", c17Rule)
	defer st.Flush()
	rapid.Check(t, c17Prop(st, FamManyFields))
}

func TestC17Mid(t *testing.T) {
	st := NewStats("C17Mid", c17Rule)
	defer st.Flush()
	rapid.Check(t, c17Prop(st, FamMid))
}

// the number of surviving postings of one term on a multiple of 1024, the small input merged alone first
// (1-hit encoded there) versus all at once
func TestC17Boundary(t *testing.T) {
	st := NewStats("C17Boundary", c17Rule)
	defer st.Flush()
	rapid.Check(t, c02BoundaryProp(st, true))
}
