package refice

// Added by the verification harness (not part of the pinned sources): exports
// of the chunk-mode-parameterised builder and merger of the frozen reference
// copy. Everything else in this directory is the pinned ice source at commit
// 76983be with only the package clause renamed.

import (
	"io"

	"github.com/RoaringBitmap/roaring"
	segment "github.com/blugelabs/bluge_segment_api"
)

func RefNew(results []segment.Document, normCalc func(string, int) float32,
	chunkMode uint32) (segment.Segment, uint64, error) {
	return newWithChunkMode(results, normCalc, chunkMode)
}

func RefMerge(segments []segment.Segment, drops []*roaring.Bitmap, w io.Writer,
	chunkMode uint32, closeCh chan struct{}) ([][]uint64, uint64, error) {
	segmentBases := make([]*Segment, len(segments))
	for i, seg := range segments {
		segmentBases[i] = seg.(*Segment)
	}
	return mergeSegmentBasesWriter(segmentBases, drops, w, chunkMode, closeCh)
}
