#!/bin/sh
# validates MANIFEST.json and all evidence files against the schemas
exec python3-vt - <<'PY'
import json,jsonschema,glob
jsonschema.validate(json.load(open('/verif/MANIFEST.json')), json.load(open('/root/.vp/MANIFEST.schema.json')))
sch=json.load(open('/root/.vp/EVIDENCE.schema.json'))
for f in sorted(glob.glob('/verif/evidence/*.json')):
    jsonschema.validate(json.load(open(f)), sch)
print('manifest + %d evidence files valid' % len(glob.glob('/verif/evidence/*.json')))
PY
