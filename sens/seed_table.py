#!/usr/bin/env python3
"""Prints the markdown table of seeded changes from /verif/seeded/*/meta.json"""
import glob, json, os
rows = []
for d in sorted(glob.glob('/verif/seeded/*')):
    mp = os.path.join(d, 'meta.json')
    if not os.path.exists(mp):
        continue
    m = json.load(open(mp))
    cr = m.get('checks_run', {})
    what = m.get('summary') or ''
    rows.append("| %s | %s | %s | %s | %s | %s |" % (m['seed_id'], m['breaks_property'], what, 'yes' if m.get('confirmed') else 'NO',
        ' '.join(cr.get('caught_by', [])) or '-', ' '.join(cr.get('silent', [])) or '-'))
print("| seed | property | change (needs to manifest) | confirmed | caught by (quick) | run but silent |")
print("|---|---|---|---|---|---|")
print("\n".join(rows))
