#!/usr/bin/env python3
"""Applies each hand-written mutant to a scratch worktree of /repo (outside /repo and /verif), checks that it
compiles and passes ice's own test suite (otherwise it is not a 'realistic' change), runs the quick tier of the
expected properties against it and records which checks catch it. Usage: run_mutants.py [mutant-id-prefix ...]"""
import json, os, subprocess, sys, shutil
sys.path.insert(0, os.path.dirname(os.path.abspath(__file__)))
from mutants import MUTANTS, EXTRA
WT = "/tmp/wt_mut"
ENV = dict(os.environ, GOFLAGS="-mod=mod", GOPROXY="off", GOSUMDB="off", GOTOOLCHAIN="local")
ALL = ["C%02d" % i for i in range(1, 20)]

def sh(cmd, **kw):
    return subprocess.run(cmd, shell=True, stdout=subprocess.PIPE, stderr=subprocess.STDOUT, text=True, env=ENV, **kw)

def main():
    sel = sys.argv[1:]
    full = "--all-props" in sel
    sel = [s for s in sel if not s.startswith("--")]
    sh("git -C /repo worktree remove --force %s" % WT)
    r = sh("git -C /repo worktree add --detach %s HEAD" % WT)
    assert r.returncode == 0, r.stdout
    results = {}
    outp = "/verif/sens/results.json"
    if os.path.exists(outp):
        results = json.load(open(outp))
    try:
        for mid, props, f, old, new in MUTANTS:
            if sel and not any(mid.startswith(s) for s in sel):
                continue
            sh("git -C %s checkout -- ." % WT)
            edits = [(f, old, new)] + [(ef, eo, en) for (em, ef, eo, en) in EXTRA if em == mid]
            ok = True
            for (ef, eo, en) in edits:
                p = os.path.join(WT, ef)
                s = open(p).read()
                if s.count(eo) != 1:
                    print(mid, "PATTERN NOT UNIQUE in", ef, s.count(eo)); ok = False; break
                open(p, "w").write(s.replace(eo, en))
            if not ok:
                results[mid] = {"status": "pattern-mismatch"}; continue
            b = sh("cd %s && go build ./... && go vet -tags verif . >/dev/null 2>&1; go test -count=1 . 2>&1 | tail -3" % WT)
            passes = "ok  \t" in b.stdout
            caught, missed = [], []
            for p in (ALL if full else props):
                r = sh("cd /verif && VERIF_REPO=%s ./check %s quick" % (WT, p))
                (caught if r.returncode == 1 else missed).append(p if r.returncode in (0, 1) else p + "(rc=%d)" % r.returncode)
            results[mid] = {"expected": props, "suite_passes": passes, "caught_by": caught, "not_caught_by": missed}
            print(mid, "suite_passes=%s" % passes, "caught_by=%s" % caught, "MISSED=%s" % missed, flush=True)
            json.dump(results, open(outp, "w"), indent=1)
    finally:
        sh("git -C /repo worktree remove --force %s" % WT)
        shutil.rmtree(WT, ignore_errors=True)

if __name__ == "__main__":
    main()
