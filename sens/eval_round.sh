#!/bin/sh
# eval_round.sh <round-prefix e.g. seed3> <suffix e.g. c>: evaluates every /tmp/<prefix>_Cxx that has SEED_OUT/patch.diff
prefix=$1; suffix=$2
rel() { case $1 in
 C01) echo C01,C02,C04,C05,C10,C14,C15;; C02) echo C02,C03,C04,C06,C07,C17,C10;; C03) echo C03,C02,C17;; C04) echo C04,C11,C10,C06;;
 C05) echo C05,C13,C01,C02;; C06) echo C06,C02,C04,C09,C13;; C07) echo C07,C02,C13,C10;; C08) echo C08,C02,C18,C13;; C09) echo C09,C13,C15;;
 C10) echo C10,C04,C01;; C11) echo C11,C04;; C12) echo C12;; C13) echo C13,C05,C18,C15;; C14) echo C14,C01,C15;; C15) echo C15,C13,C02;;
 C16) echo C16,C17,C15;; C17) echo C17,C02,C16;; C18) echo C18,C13,C15;; C19) echo C19,C09;; esac; }
for d in /tmp/${prefix}_C*; do
  p=$(basename $d | sed "s/${prefix}_//")
  [ -f $d/SEED_OUT/patch.diff ] || continue
  [ -f /verif/seeded/S-$p-$suffix/meta.json ] && continue
  python3 /verif/sens/eval_seed.py S-$p-$suffix $d $p --only $(rel $p) 2>&1 | python3 -c "
import sys,json
try:
    d=json.loads(sys.stdin.read()); print(d['seed_id'],'confirmed=',d['confirmed'],'caught=',d.get('checks_run',{}).get('caught_by'),'silent=',d.get('checks_run',{}).get('silent'),d.get('checks_run',{}).get('inconclusive'), d.get('error',''))
except Exception as e: print('eval failed', e)"
done
