#!/usr/bin/env python3
"""Confirms and evaluates a seeded change produced by a sub-agent.

  eval_seed.py <seed-id> <agent-worktree> <property-id> [--tier quick|thorough] [--only C05,C13]

Steps (all in a fresh scratch worktree of /repo outside /repo and /verif, removed afterwards):
 1. apply <agent-worktree>/SEED_OUT/patch.diff; it must compile and ice's own suite must pass;
 2. the demonstration test must FAIL with the patch and PASS without it;
 3. run the registered checks against the patched tree (VERIF_REPO) and record which ones report a violation;
 4. store patch.diff, the demonstration and meta.json under /verif/seeded/<seed-id>/.
"""
import json, os, shutil, subprocess, sys, time
ENV = dict(os.environ, GOFLAGS="-mod=mod", GOPROXY="off", GOSUMDB="off", GOTOOLCHAIN="local")
ALL = ["C%02d" % i for i in range(1, 20)]

def sh(cmd, **kw):
    return subprocess.run(cmd, shell=True, stdout=subprocess.PIPE, stderr=subprocess.STDOUT, text=True, env=ENV, **kw)

def main():
    sid, awt, pid = sys.argv[1], sys.argv[2], sys.argv[3]
    tier = "quick"
    only = None
    a = sys.argv[4:]
    while a:
        if a[0] == "--tier": tier = a[1]; a = a[2:]
        elif a[0] == "--only": only = a[1].split(","); a = a[2:]
        else: a = a[1:]
    out = os.path.join(awt, "SEED_OUT")
    if not os.path.isdir(out):
        out = awt  # re-evaluation from /verif/seeded/<id>
    patch = os.path.join(out, "patch.diff")
    demo = os.path.join(out, "demo_test.go")
    assert os.path.exists(patch) and os.path.exists(demo), "agent output missing"
    wt = "/tmp/seedcheck_%s" % sid
    sh("git -C /repo worktree remove --force %s" % wt)
    r = sh("git -C /repo worktree add --detach %s HEAD" % wt); assert r.returncode == 0, r.stdout
    meta = {"seed_id": sid, "breaks_property": pid, "confirmed": False}
    try:
        r = sh("cd %s && git apply %s" % (wt, patch))
        if r.returncode != 0:
            meta["error"] = "patch does not apply: " + r.stdout[-500:]; print(meta["error"]); return finish(meta, sid, out, wt)
        r = sh("cd %s && go build ./... && go vet -tags verif . >/dev/null 2>&1; go test -count=1 ./... 2>&1 | tail -5" % wt)
        meta["suite_passes_with_change"] = "ok  \tgithub.com/blugelabs/ice/v2" in r.stdout and "FAIL" not in r.stdout
        shutil.copy(demo, os.path.join(wt, "zz_seed_demo_test.go"))
        r1 = sh("cd %s && go test -count=1 -run '^TestSeedDemo$' . 2>&1 | tail -15" % wt)
        meta["demo_fails_with_change"] = "FAIL" in r1.stdout
        meta["demo_output_with_change"] = r1.stdout[-1200:]
        sh("cd %s && git apply -R %s" % (wt, patch))
        r2 = sh("cd %s && go test -count=1 -run '^TestSeedDemo$' . 2>&1 | tail -5" % wt)
        meta["demo_passes_without_change"] = r2.stdout.startswith("ok") or "\nok" in r2.stdout
        sh("cd %s && git apply %s && rm -f zz_seed_demo_test.go" % (wt, patch))
        meta["confirmed"] = bool(meta["suite_passes_with_change"] and meta["demo_fails_with_change"] and meta["demo_passes_without_change"])
        caught, missed, other = [], [], []
        t0 = time.time()
        for p in (only or ALL):
            r = sh("cd /verif && VERIF_REPO=%s ./check %s %s" % (wt, p, tier))
            if r.returncode == 1: caught.append(p)
            elif r.returncode == 0: missed.append(p)
            else: other.append("%s(rc=%d)" % (p, r.returncode))
        meta["checks_run"] = {"tier": tier, "caught_by": caught, "silent": missed, "inconclusive": other, "wall_s": round(time.time() - t0)}
        meta["ran"] = ["git apply patch.diff (fresh worktree of /repo HEAD)", "go build ./... ; go test -count=1 ./...", "go test -run TestSeedDemo (with / without the patch)",
                       "VERIF_REPO=<worktree> ./check <each property> %s" % tier]
    finally:
        finish(meta, sid, out, wt)

def finish(meta, sid, out, wt):
    d = "/verif/seeded/%s" % sid
    os.makedirs(d, exist_ok=True)
    prev = {}
    if os.path.exists(os.path.join(d, "meta.json")):
        prev = json.load(open(os.path.join(d, "meta.json")))
    if prev.get("summary"):
        meta["summary"] = prev["summary"]
    for f in ("patch.diff", "demo_test.go", "meta.txt"):
        src, dst = os.path.join(out, f), os.path.join(d, f if f != "meta.txt" else "agent_notes.txt")
        if os.path.exists(src) and os.path.abspath(src) != os.path.abspath(dst):
            shutil.copy(src, dst)
    if os.path.exists(os.path.join(d, "agent_notes.txt")):
        meta["needs_to_manifest"] = open(os.path.join(d, "agent_notes.txt")).read()[:3000]
    json.dump(meta, open(os.path.join(d, "meta.json"), "w"), indent=1)
    sh("git -C /repo worktree remove --force %s" % wt)
    shutil.rmtree(wt, ignore_errors=True)
    print(json.dumps({k: v for k, v in meta.items() if k not in ("needs_to_manifest", "demo_output_with_change")}, indent=1))

if __name__ == "__main__":
    main()
