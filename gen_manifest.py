#!/usr/bin/env python3
"""Regenerates MANIFEST.json from checks_table.py + manifest_text.py (kept valid at all times)."""
import json, os, sys
ROOT = os.path.dirname(os.path.abspath(__file__))
sys.path.insert(0, ROOT)
from checks_table import CHECKS
from manifest_text import TEXT, HOOK_COMMITS, NOT_APPLICABLE

all_ids = [json.loads(l)["id"] for l in open(os.path.join(ROOT, "properties.jsonl"))]
checks = []
for pid in all_ids:
    if pid not in CHECKS or pid not in TEXT:
        continue
    t = TEXT[pid]
    checks.append({
        "property_id": pid,
        "quick_cmd": "./check %s quick" % pid,
        "thorough_cmd": "./check %s thorough" % pid,
        "evidence_file": "/verif/evidence/%s.json" % pid,
        "replay_cmd_template": "./check %s --replay {path}" % pid,
        "engine": "rapid-harness",
        "level_claimed": {"category": CHECKS[pid]["level"], "text": t["level_text"] + " Families, caller behaviours and single heavy cases added later (sections 7.1 and 7.5 of DESIGN.md) run under the same commands; the tests and case counts per tier are listed in checks_table.py.", "design_ref": "DESIGN.md section 4/%s and 7.1" % pid},
        "level_note": t["level_note"],
        "technique": t["technique"],
    })
na = []
for pid in all_ids:
    if pid not in CHECKS or pid not in TEXT:
        na.append({"property_id": pid, "reason": NOT_APPLICABLE.get(pid, "check not built yet in this session; planned in DESIGN.md section 4/%s" % pid)})
m = {
    "version": 1,
    "setup_cmd": "./check --setup",
    "hooks": {
        "guard": "verif",
        "enable": "go build tag: the harness is compiled with `go test -tags verif`, which compiles /repo/verif_export.go (//go:build verif)",
        "baseline_off_cmd": "cd /repo && go test -mod=mod -json -vet=off -count=1 -timeout 25m ./...",
        "source_commits": HOOK_COMMITS,
        "add_only": True,
    },
    "engines": [{
        "name": "rapid-harness",
        "path": "/verif/harness",
        "serves_properties": [c["property_id"] for c in checks],
        "kind_free_text": "Go module with pgregory.net/rapid v1.3.0 properties and state machines, an independent reference model (model.go), fault-injecting writers/storage, a frozen reference copy of ice (refice) and the Go race detector; driven by /verif/check",
    }],
    "checks": checks,
    "notes": "All checks rebuild the harness test binary from /repo's current working tree (replace directive). Exit 0 held / 1 violation / 2 inconclusive (build failure, timeout, short run).",
    "not_applicable": na,
}
json.dump(m, open(os.path.join(ROOT, "MANIFEST.json"), "w"), indent=1)
print("claimed:", [c["property_id"] for c in checks], "not claimed:", [n["property_id"] for n in na])
