# Per property: level, tests (name, quick case count, thorough case count, race build?), assumptions.
# A count of 0 means a plain (non-rapid) test.

COMMON_ASSUMPTIONS = [
    "inputs respect the input contract of DESIGN.md section 1 (positive norms, freq >= #locations, location field names exist in the batch, no 0xff in doc-value terms, drops name existing documents, chunk mode 1..1025)",
    "the reference oracle (harness/model.go, written from the property text) is itself correct; it is cross-checked by C01 (against New) and C17 (oracle-free)",
    "generated search samples the input space; it does not establish absence",
]

CHECKS = {
    "C01": {
        "level": "exploration",
        "tests": [
            {"name": "TestC01Small", "quick": 3000, "thorough": 96000},
            {"name": "TestC01Blocks", "quick": 40, "thorough": 1280},
            {"name": "TestC01Wide", "quick": 15, "thorough": 480, "min_per_shard": 10},
            {"name": "TestC01Regress", "quick": 0},
        ],
        "assumptions": COMMON_ASSUMPTIONS,
    },
}
