# Per property: level, tests (name, quick case count, thorough case count, race build?), assumptions.
# A count of 0 means a plain (non-rapid) test.

COMMON_ASSUMPTIONS = [
    "inputs respect the input contract of DESIGN.md section 1 (positive norms, freq >= #locations, location field names exist in the batch, no 0xff in doc-value terms, drops name existing documents, chunk mode 1..1025)",
    "the reference oracle (harness/model.go, written from the property text) is itself correct; it is cross-checked by C01 (against New) and C17 (oracle-free)",
    "generated search samples the input space; it does not establish absence",
]

def fam(prefix, small, blocks=None, wide=None, regress=True, extra=(), mid=None):
    """tests of a property over the three scenario families: (quick, thorough) counts"""
    ts = [{"name": "Test%sSmall" % prefix, "quick": small[0], "thorough": small[1]}]
    if blocks:
        ts.append({"name": "Test%sBlocks" % prefix, "quick": blocks[0], "thorough": blocks[1], "min_per_shard": 20})
    if wide:
        ts.append({"name": "Test%sWide" % prefix, "quick": wide[0], "thorough": wide[1], "min_per_shard": 8})
    if mid:
        ts.append({"name": "Test%sMid" % prefix, "quick": mid[0], "thorough": mid[1]})
    if regress:
        ts.append({"name": "Test%sRegress" % prefix, "quick": 0})
    ts.extend(extra)
    return ts


CHECKS = {
    "C01": {
        "level": "exploration",
        "tests": [
            {"name": "TestC01Small", "quick": 3000, "thorough": 576000},
            {"name": "TestC01Blocks", "quick": 40, "thorough": 7680},
            {"name": "TestC01Wide", "quick": 15, "thorough": 2880, "min_per_shard": 10},
            {"name": "TestC01Mid", "quick": 1500, "thorough": 288000},
            {"name": "TestC01ManyFields", "quick": 150, "thorough": 14400},
            {"name": "TestC01Huge", "quick": 3, "thorough": 240, "min_per_shard": 3, "max_shards": 5},
            {"name": "TestC01Sparse", "quick": 10, "thorough": 960, "min_per_shard": 5, "max_shards": 5},
            {"name": "TestC01Counts", "quick": 40, "thorough": 3840, "min_per_shard": 8},
            {"name": "TestC01Terms", "quick": 100, "thorough": 9600, "min_per_shard": 20},
            {"name": "TestC01Regress", "quick": 0},
        ],
        "assumptions": COMMON_ASSUMPTIONS,
    },
    "C02": {
        "level": "exploration",
        "tests": fam("C02", (2500, 480000), (25, 4800), (40, 1920), regress=False, mid=(1200, 230400), extra=({"name": "TestC02ManyFields", "quick": 60, "thorough": 5760, "min_per_shard": 20}, {"name": "TestC02Huge", "quick": 2, "thorough": 96, "min_per_shard": 2, "max_shards": 5},
                                                                                              {"name": "TestC02Boundary", "quick": 120, "thorough": 11520, "min_per_shard": 20},
                                                                                              {"name": "TestC02Sparse", "quick": 6, "thorough": 480, "min_per_shard": 3, "max_shards": 5},
                                                                                              {"name": "TestC02Gaps", "quick": 30, "thorough": 2880, "min_per_shard": 6},
                                                                                              {"name": "TestC02Counts", "quick": 20, "thorough": 1920, "min_per_shard": 5})),
        "assumptions": COMMON_ASSUMPTIONS,
    },
    "C03": {
        "level": "exploration",
        "tests": [{"name": "TestC03", "quick": 4000, "thorough": 768000}, {"name": "TestC03Blocks", "quick": 60, "thorough": 5760, "min_per_shard": 20}, {"name": "TestC03Wide", "quick": 12, "thorough": 960, "min_per_shard": 6}, {"name": "TestC03Regress", "quick": 0}],
        "assumptions": COMMON_ASSUMPTIONS,
    },
    "C04": {
        "level": "exploration",
        "tests": fam("C04", (2000, 384000), (20, 3840), (8, 1536), mid=(1000, 192000), extra=({"name": "TestC04Big", "quick": 4, "thorough": 192, "min_per_shard": 4},
                             {"name": "TestC04Aligned", "quick": 150, "thorough": 14400, "min_per_shard": 20},
                             {"name": "TestC04Counts", "quick": 30, "thorough": 2880, "min_per_shard": 8},
                             {"name": "TestC04Giant", "quick": 2, "thorough": 32, "min_per_shard": 2, "max_shards": 4})),
        "assumptions": COMMON_ASSUMPTIONS,
    },
    "C06": {
        "level": "exploration",
        "tests": fam("C06", (3000, 576000), (300, 57600), extra=({"name": "TestC06ManyFields", "quick": 80, "thorough": 7680, "min_per_shard": 20},
                                                                       {"name": "TestC06Giant", "quick": 2, "thorough": 32, "min_per_shard": 2, "max_shards": 4})),
        "assumptions": COMMON_ASSUMPTIONS,
    },
    "C05": {
        "level": "exploration",
        "tests": [{"name": "TestC05Small", "quick": 8000, "thorough": 1920000}, {"name": "TestC05Wide", "quick": 300, "thorough": 72000}, {"name": "TestC05Huge", "quick": 12, "thorough": 480, "min_per_shard": 6, "max_shards": 5}, {"name": "TestC05Sparse", "quick": 80, "thorough": 2400, "min_per_shard": 6, "max_shards": 5},
                  {"name": "TestC05Regress", "quick": 0}, {"name": "TestC05RegressAdvanceBeyond32", "quick": 0}],
        "assumptions": COMMON_ASSUMPTIONS + ["Advance targets are > the last returned document and non-decreasing (API contract), any uint64 value including targets >= 2^32; ReplaceActual only before the first step, with a subset of ActualBitmap(), on a non-1-hit iterator"],
    },
    "C08": {
        "level": "exploration",
        "tests": [{"name": "TestC08", "quick": 5000, "thorough": 960000}, {"name": "TestC08Terms", "quick": 150, "thorough": 14400, "min_per_shard": 20}, {"name": "TestC08Regress", "quick": 0}, {"name": "TestC08RegressRange", "quick": 0}],
        "assumptions": COMMON_ASSUMPTIONS + ["range bounds are nil or non-empty with start <= end; automata implement the segment.Automaton contract"],
    },
    "C11": {
        "level": "exploration",
        "tests": fam("C11", (3000, 576000), (60, 11520), wide=(8, 768), mid=(1000, 192000), extra=({"name": "TestC11Big", "quick": 4, "thorough": 192, "min_per_shard": 4},
                                                                                                   {"name": "TestC11Aligned", "quick": 100, "thorough": 9600, "min_per_shard": 20},
                                                                                                   {"name": "TestC11Giant", "quick": 2, "thorough": 32, "min_per_shard": 2, "max_shards": 4})),
        "assumptions": COMMON_ASSUMPTIONS + ["the footer layout is taken from README.md"],
    },
    "C13": {
        "level": "exploration",
        "tests": [{"name": "TestC13", "quick": 4000, "thorough": 768000}, {"name": "TestC13Wide", "quick": 60, "thorough": 3840, "min_per_shard": 20},
                  {"name": "TestC13Fault", "quick": 1500, "thorough": 288000}, {"name": "TestC13FaultMid", "quick": 1000, "thorough": 192000}, {"name": "TestC13Regress", "quick": 0}],
        "assumptions": COMMON_ASSUMPTIONS + ["an object handed back as prealloc is dead afterwards (aliasing is the caller's responsibility)"],
    },
    "C16": {
        "level": "exploration",
        "tests": [{"name": "TestC16Small", "quick": 4000, "thorough": 768000}, {"name": "TestC16Wide", "quick": 30, "thorough": 5760, "min_per_shard": 8}, {"name": "TestC16Mid", "quick": 1000, "thorough": 192000}, {"name": "TestC16ManyFields", "quick": 100, "thorough": 9600, "min_per_shard": 20},
                  {"name": "TestC16Counts", "quick": 60, "thorough": 5760, "min_per_shard": 8},
                  {"name": "TestC16Huge", "quick": 24, "thorough": 576, "min_per_shard": 6, "max_shards": 5},
                  {"name": "TestC16Regress", "quick": 0}],
        "assumptions": COMMON_ASSUMPTIONS + ["reported field length equals the sum of the field's term frequencies (the property's stated domain)"],
    },
    "C17": {
        "level": "exploration",
        "tests": [{"name": "TestC17Small", "quick": 1200, "thorough": 230400}, {"name": "TestC17Wide", "quick": 60, "thorough": 3840, "min_per_shard": 8},
                  {"name": "TestC17ManyFields", "quick": 200, "thorough": 19200, "min_per_shard": 20}, {"name": "TestC17Mid", "quick": 600, "thorough": 115200}, {"name": "TestC17Boundary", "quick": 100, "thorough": 9600, "min_per_shard": 20}],
        "assumptions": [COMMON_ASSUMPTIONS[0], COMMON_ASSUMPTIONS[2], "metamorphic: no reference model is involved, only observational equality of two merge results"],
    },
    "C18": {
        "level": "exploration",
        "tests": [{"name": "TestC18", "quick": 6000, "thorough": 1152000}, {"name": "TestC18Names", "quick": 1500, "thorough": 96000}, {"name": "TestC18Regress", "quick": 0}],
        "assumptions": COMMON_ASSUMPTIONS,
    },
    "C07": {
        "level": "exploration",
        "tests": [{"name": "TestC07Small", "quick": 3000, "thorough": 576000}, {"name": "TestC07Wide", "quick": 400, "thorough": 28800}, {"name": "TestC07Mid", "quick": 1000, "thorough": 192000}, {"name": "TestC07Huge", "quick": 6, "thorough": 480, "min_per_shard": 3, "max_shards": 5},
                  {"name": "TestC07Gaps", "quick": 150, "thorough": 14400, "min_per_shard": 10}, {"name": "TestC07HugeChunk", "quick": 0, "max_shards": 5}],
        "assumptions": COMMON_ASSUMPTIONS + ["document numbers passed to VisitDocumentValues are < Count()"],
    },
    "C12": {
        "level": "fault_enumeration",
        "tests": [{"name": "TestC12Small", "quick": 28, "thorough": 2560, "min_per_shard": 20}, {"name": "TestC12Blocks", "quick": 3, "thorough": 192, "min_per_shard": 3},
                  {"name": "TestC12Wide", "quick": 12, "thorough": 480, "min_per_shard": 4, "max_shards": 8}, {"name": "TestC12WideB", "quick": 12, "thorough": 480, "min_per_shard": 4, "max_shards": 8},
                  {"name": "TestC12Giant", "quick": 2, "thorough": 32, "min_per_shard": 2, "max_shards": 4}],
        "assumptions": ["the injected writer is a conforming io.Writer (returns n < len(p) together with a non-nil error, fails forever afterwards)",
                        "the close channel is closed from inside the destination writer's Write, i.e. at byte granularity of what reaches the writer (coarser than the merger's own polls for large buffers)",
                        COMMON_ASSUMPTIONS[0]],
    },
    "C14": {
        "level": "exploration",
        "tests": [{"name": "TestC14", "quick": 600, "thorough": 19200}, {"name": "TestC14", "quick": None, "thorough": 3200, "race": True, "max_shards": 8},
                  {"name": "TestC14Long", "quick": 16, "thorough": 960, "min_per_shard": 8},
                  {"name": "TestC14Vocab64k", "quick": 0, "max_shards": 5}, {"name": "TestC14Vocab512k", "quick": 0, "max_shards": 5},
                  {"name": "TestC14Process", "quick": 6, "thorough": 96, "min_per_shard": 6}],
        "assumptions": [COMMON_ASSUMPTIONS[0], "whether a build really started from a recycled pool object is sampled through the verif hook just before the build (sync.Pool is per-P, so this is evidence, not control)",
                        "concurrent builders are scheduled by the Go runtime; interleavings are sampled"],
    },
    "C15": {
        "level": "exploration",
        "tests": [{"name": "TestC15", "quick": 1500, "thorough": 288000}],
        "assumptions": COMMON_ASSUMPTIONS + ["bitmap representation equality is judged on roaring's serialised bytes"],
    },
    "C19": {
        "level": "fault_enumeration",
        "tests": [{"name": "TestC19Small", "quick": 160, "thorough": 11520, "min_per_shard": 20}, {"name": "TestC19Blocks", "quick": 40, "thorough": 960, "min_per_shard": 5}, {"name": "TestC19Wide", "quick": 12, "thorough": 480, "min_per_shard": 4}, {"name": "TestC19Mid", "quick": 200, "thorough": 9600, "min_per_shard": 20},
                  {"name": "TestC19Regress", "quick": 0}, {"name": "TestC19RegressRetry", "quick": 0}, {"name": "TestC19RegressDocValueHeader", "quick": 0}],
        "assumptions": ["storage faults are injected by swapping the unexported io.ReaderAt inside segment.Data (reflect+unsafe, self-tested at start-up) before ice.Load; every ReadAt from index k on fails",
                        "faults during ice.Load itself are not injected (Load is not a read call on a segment)",
                        "a call that does not return within 30 s is a violation only when its goroutine is blocked in sync.(*Mutex).Lock under an ice frame; anything else is reported as inconclusive",
                        COMMON_ASSUMPTIONS[0]],
    },
    "C09": {
        "level": "exploration",
        "tests": [
            {"name": "TestC09ConcSmall", "quick": 300, "thorough": 32000, "race": True, "env": {"GORACE": "halt_on_error=1"}, "min_per_shard": 100},
            {"name": "TestC09ConcBlocks", "quick": 120, "thorough": 8000, "race": True, "env": {"GORACE": "halt_on_error=1"}, "min_per_shard": 50},
            {"name": "TestC09NestSmall", "quick": 600, "thorough": 20000},
            {"name": "TestC09NestBlocks", "quick": 600, "thorough": 20000},
            {"name": "TestC09Regress", "quick": 0},
            {"name": "TestC09NestBlocks", "quick": None, "thorough": 4000, "race": True, "env": {"GORACE": "halt_on_error=1"}, "max_shards": 4},
        ],
        "assumptions": ["interleavings are SAMPLED by the Go scheduler (GOMAXPROCS drawn from {2,4,16}, start barrier, drawn Gosched points), not enumerated; the claim is 'no race report and no wrong result on the generated concurrent programs', not race freedom",
                        "the Go race detector is happens-before based: it reports two unsynchronised accesses that occurred in one run whatever their order, so detection depends mainly on which operations run concurrently, which the generator controls",
                        "the re-entrancy half is sequential and deterministic",
                        COMMON_ASSUMPTIONS[0]],
    },
    "C10": {
        "level": "exploration",
        "tests": [{"name": "TestC10Golden", "quick": 0},
                  {"name": "TestC10Small", "quick": 1500, "thorough": 288000},
                  {"name": "TestC10Blocks", "quick": 40, "thorough": 7680, "min_per_shard": 20},
                  {"name": "TestC10Wide", "quick": 15, "thorough": 2880, "min_per_shard": 8},
                  {"name": "TestC10Big", "quick": 4, "thorough": 192, "min_per_shard": 4},
                  {"name": "TestC10Sparse", "quick": 12, "thorough": 960, "min_per_shard": 6, "max_shards": 5},
                  {"name": "TestC10ManyFields", "quick": 60, "thorough": 5760, "min_per_shard": 10},
                  {"name": "TestC10Counts", "quick": 30, "thorough": 2880, "min_per_shard": 8},
                  {"name": "TestC10Gaps", "quick": 20, "thorough": 1920, "min_per_shard": 5}],
        "assumptions": ["the reference is harness/refice: the pinned ice sources at commit 76983be with only the package clause renamed (plus one added export file), compiled into the harness",
                        "facets where the reference itself is defective are excluded by construction and counted in the labels (excluded:*)",
                        "a format change confined to a structure none of the three scenario families produces would pass",
                        COMMON_ASSUMPTIONS[0]],
    },
}
