HOOK_COMMITS = ["2a5fcb1"]
NOT_APPLICABLE = {}
TEXT = {
    "C01": {
        "technique": "property-based testing (rapid): generated batches x chunk modes vs. an independent reference model, both directions",
        "level_text": "Exploration: thousands of generated batches per run (small, 128-document-block and >1024-document families; every fixed chunk size that makes few-document lists multi-chunk, plus the adaptive mode) are built with New and every field's full dictionary and every posting (frequency, bit-exact norm, locations with field names, order) is compared with a model computed from the batch alone; extra terms/postings fail as well as missing ones. Sampling, not proof.",
        "level_note": "Trusts the reference model in harness/model.go and the input contract stated in the property; chunk modes other than the adaptive one are reached through the verif-tagged export.",
    },
    "C02": {
        "technique": "property-based testing (rapid): generated merge trees vs. reference model of the survivors and a literal rebuild with New",
        "level_text": "Exploration: generated trees of merges (1-3 inputs per merge, inputs built/loaded/previously merged with differing field sets and chunk modes, drops nil/empty/partial/everything, drawn output chunk mode, small/128-block/>1024-document families) are observed through every read API except statistics and compared with the model of the survivors; whenever the survivors form a contract-valid batch the merged segment is also compared with a literal rebuild by New. Vanished terms are probed through Contains/PostingsList. Sampling, not proof.",
        "level_note": "Trusts the reference model; statistics are excluded here (C16/C17 own them); doc-value comparison with the literal rebuild is skipped when the scenario mixes the doc-value flag per field instance (the model comparison still applies).",
    },
    "C03": {
        "technique": "property-based testing (rapid): public Merge on generated inputs vs. arithmetic oracle on the bitmaps + unique per-document markers",
        "level_text": "Exploration: thousands of generated merges through the public Merge(...).WriteTo (1-4 inputs incl. empty, all-dropped and previously merged segments, all buffer sizes) whose DocumentNumbers() is compared with the mapping computed from the bitmaps alone, and whose content is located by a unique stored marker and _id term per document at exactly the reported new number.",
        "level_note": "Trusts roaring bitmap membership and the harness' marker bookkeeping; only the adaptive chunk mode is reachable through the public API.",
    },
    "C04": {
        "technique": "property-based testing (rapid): persist/load round trip (memory- and file-backed) over generated build/merge trees, observational equality",
        "level_text": "Exploration: generated segments (built or trees of merges up to depth 3 incl. empty batches and zero-survivor merges, every chunk mode, three size families) are persisted, checked for the returned byte count, loaded memory-backed (exact-capacity slice) and file-backed, and all read APIs incl. statistics, chunk mode and version must answer identically to the original and (except statistics) to the model.",
        "level_note": "Trusts os temp files for the file-backed path and the reference model; panics are caught and reported as violations.",
    },
    "C06": {
        "technique": "property-based testing (rapid): generated visit sequences with early-stopping visitors vs. per-document model of stored values",
        "level_text": "Exploration: generated segments (small and 128-document-block families whose neighbouring blocks differ by 0..24 bytes and end in 2-byte records; built, loaded both ways, merged through the byte-copy and re-encode paths) are visited in drawn orders (last-of-block after another block, first-of-next, n >= Count) with visitors that stop after k values; every visit must deliver exactly the model's (field,value) sequence prefix.",
        "level_note": "Trusts the reference model; values are copied inside the callback so nothing is assumed about buffer lifetime.",
    },
}
