HOOK_COMMITS = ["2a5fcb1"]
NOT_APPLICABLE = {}
TEXT = {
    "C01": {
        "technique": "property-based testing (rapid): generated batches x chunk modes vs. an independent reference model, both directions",
        "level_text": "Exploration: thousands of generated batches per run (small, 128-document-block and >1024-document families; every fixed chunk size that makes few-document lists multi-chunk, plus the adaptive mode) are built with New and every field's full dictionary and every posting (frequency, bit-exact norm, locations with field names, order) is compared with a model computed from the batch alone; extra terms/postings fail as well as missing ones. Sampling, not proof.",
        "level_note": "Trusts the reference model in harness/model.go and the input contract stated in the property; chunk modes other than the adaptive one are reached through the verif-tagged export.",
    },
}
