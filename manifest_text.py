HOOK_COMMITS = ["2a5fcb1"]
NOT_APPLICABLE = {}
TEXT = {
    "C01": {
        "technique": "property-based testing (rapid): generated batches x chunk modes vs. an independent reference model, both directions",
        "level_text": "Exploration: thousands of generated batches per run (small, 128-document-block and >1024-document families; every fixed chunk size that makes few-document lists multi-chunk, plus the adaptive mode) are built with New and every field's full dictionary and every posting (frequency, bit-exact norm, locations with field names, order) is compared with a model computed from the batch alone; extra terms/postings fail as well as missing ones. Sampling, not proof. Families: small (<=8 docs over 6 field names incl. one sorting before _id), mid (<=28 docs around one posting list), 128-document blocks (incl. exact multiples of 128), >1024 documents (repeated field instances, exact multiples of 1024 postings, sparse doc-value fields), 130-300 field names (two-byte field ids), >65535 documents (several roaring containers); the segment is re-observed after later builds.",
        "level_note": "Trusts the reference model in harness/model.go and the input contract stated in the property; chunk modes other than the adaptive one are reached through the verif-tagged export.",
    },
    "C02": {
        "technique": "property-based testing (rapid): generated merge trees vs. reference model of the survivors and a literal rebuild with New",
        "level_text": "Exploration: generated trees of merges (1-3 inputs per merge, inputs built/loaded/previously merged with differing field sets and chunk modes, drops nil/empty/partial/everything, drawn output chunk mode, small/128-block/>1024-document families) are observed through every read API except statistics and compared with the model of the survivors; whenever the survivors form a contract-valid batch the merged segment is also compared with a literal rebuild by New. Vanished terms are probed through Contains/PostingsList. Sampling, not proof. Same six size/shape families as C01.",
        "level_note": "Trusts the reference model; statistics are excluded here (C16/C17 own them); doc-value comparison with the literal rebuild is skipped when the scenario mixes the doc-value flag per field instance (the model comparison still applies).",
    },
    "C03": {
        "technique": "property-based testing (rapid): public Merge on generated inputs vs. arithmetic oracle on the bitmaps + unique per-document markers",
        "level_text": "Exploration: thousands of generated merges through the public Merge(...).WriteTo (1-4 inputs incl. empty, all-dropped and previously merged segments, all buffer sizes) whose DocumentNumbers() is compared with the mapping computed from the bitmaps alone, and whose content is located by a unique stored marker and _id term per document at exactly the reported new number.",
        "level_note": "Trusts roaring bitmap membership and the harness' marker bookkeeping; only the adaptive chunk mode is reachable through the public API.",
    },
    "C04": {
        "technique": "property-based testing (rapid): persist/load round trip (memory- and file-backed) over generated build/merge trees, observational equality",
        "level_text": "Exploration: generated segments (built or trees of merges up to depth 3 incl. empty batches and zero-survivor merges, every chunk mode, three size families) are persisted, checked for the returned byte count, loaded memory-backed (exact-capacity slice) and file-backed, and all read APIs incl. statistics, chunk mode and version must answer identically to the original and (except statistics) to the model.",
        "level_note": "Trusts os temp files for the file-backed path and the reference model; panics are caught and reported as violations.",
    },
    "C06": {
        "technique": "property-based testing (rapid): generated visit sequences with early-stopping visitors vs. per-document model of stored values",
        "level_text": "Exploration: generated segments (small and 128-document-block families whose neighbouring blocks differ by 0..24 bytes and end in 2-byte records; built, loaded both ways, merged through the byte-copy and re-encode paths) are visited in drawn orders (last-of-block after another block, first-of-next, n >= Count) with visitors that stop after k values; every visit must deliver exactly the model's (field,value) sequence prefix.",
        "level_note": "Trusts the reference model; values are copied inside the callback so nothing is assumed about buffer lifetime.",
    },
    "C05": {
        "technique": "model-based property testing (rapid): generated Next/Advance histories over generated posting lists, exclusions and flags vs. a filtered list + cursor model",
        "level_text": "Exploration: each case draws a posting list (fixed chunk sizes 1..7 over few documents, adaptive multi-chunk over >1024 documents, 1-hit terms of merged segments, absent terms), an exclusion bitmap of five classes, the three flags, optionally ReplaceActual(subset) - in a third of those cases the caller then narrows that same bitmap in place and hands it in again -, and a history of up to 25 Next/Advance calls with targets placed relative to the cursor and chunk boundaries; after every call the returned posting (number; frequency/norm when any flag is set; locations when requested) must equal the model's, nil must stay nil, Count() must equal the non-excluded postings. A >65535-document family adds Advance targets around the roaring container boundary.",
        "level_note": "Trusts the model list (validated against New by C01) and the API contract on Advance targets.",
    },
    "C08": {
        "technique": "property-based testing (rapid): dictionary enumeration under generated ranges and harness automata vs. filtered model term set",
        "level_text": "Exploration: built and merged segments (1-hit and general encoded terms interleaved), every field incl. unknown ones, generated [start,end) ranges from existing terms/prefixes/successors/unrelated keys, automata nil/always/prefix/contains-byte/length-mod; the enumeration must be exactly the model's live terms in range accepted by the automaton, ascending, each with its true document count; Contains/PostingsList are probed for present, absent and deleted-away terms.",
        "level_note": "Trusts the model; automata beyond prefix/any are harness-defined but obey the Automaton contract.",
    },
    "C11": {
        "technique": "property-based testing (rapid): independent footer parser + CRC-32/IEEE recomputation + persist/load/persist byte identity",
        "level_text": "Exploration: every generated segment (built, merged, loaded both ways) is persisted; an independent parser written from the README checks that the last four bytes are the IEEE CRC-32 of all preceding bytes and that numDocs/version/chunk mode equal what the segment reports; the returned byte count must equal the bytes written; loading and persisting again (memory- and file-backed) must reproduce the file byte for byte; Merger.WriteTo output (hooked and public) is checked the same way.",
        "level_note": "Trusts hash/crc32 and the README footer layout.",
    },
    "C13": {
        "technique": "stateful model-based testing (rapid): histories with an object pool where every lookup may reuse any earlier postings list / iterator, vs. the reference model",
        "level_text": "Exploration: histories of up to 40 steps over 1-3 differently shaped segments; lookups pass nil or any live earlier PostingsList as prealloc (across segments, fields, encodings), Iterator() passes nil or any live earlier iterator (half-consumed, 1-hit, empty, other flags), iterators are stepped, dictionaries / dictionary iterators / doc-value readers / stored-field visits are continued in between; every result must equal the model's.",
        "level_note": "Trusts the model; objects handed back as prealloc (and iterators made from them) are treated as dead.",
    },
    "C16": {
        "technique": "property-based testing (rapid): CollectionStats of generated built/loaded/merged segments vs. counts computed from the model; algebraic check of Merge",
        "level_text": "Exploration: generated batches with length == sum of frequencies (incl. term-less field instances), built, loaded and merged through trees with deletions; TotalDocumentCount, DocumentCount and SumTotalTermFrequency must equal the model's numbers for every field, be zero for unknown fields, and CollectionStats.Merge must add component-wise incl. self-merge. The statistics of a built segment are read again after a later build.",
        "level_note": "Trusts the model's two definitions (built: documents carrying the field / sum of lengths; merged: survivors with >=1 term / sum of surviving frequencies), which are the property's.",
    },
    "C17": {
        "technique": "metamorphic property testing (rapid): flat merge vs. drawn order-preserving bracketings, composition of document-number maps, single-segment identity",
        "level_text": "Exploration: for generated lists of 2-5 segments with deletions and a drawn recursive bracketing, the flat merge and the bracketed merge must be observationally identical on every read API including statistics, the reported document-number maps must compose, merge([M]) must equal M including statistics and merge([B]) must equal a built B except statistics. No reference model is involved.",
        "level_note": "Independent of the harness model; depends only on the observation walker.",
    },
    "C18": {
        "technique": "property-based testing (rapid): DocsMatchingTerms on generated term lists vs. union over the model",
        "level_text": "Exploration: generated segments (built, loaded, merged) and lists of 0-12 (field, term) pairs mixing present, absent, unknown-field, empty-field-name, repeated, deleted-away and 1-hit terms in arbitrary order; the result must equal the union computed from the model, without error or panic.",
        "level_note": "Trusts the model and roaring set equality.",
    },
    "C07": {
        "technique": "model-based property testing (rapid): one doc-value reader driven through generated visiting histories vs. per-document model",
        "level_text": "Exploration: generated segments (small family and 1025-3100-document family spanning several 1024-document doc-value chunks; built, loaded, merged) are read with one DocumentValueReader over a drawn field list (permutations, duplicates, unknown and non-doc-value fields) following a drawn history (forwards, backwards, ping-pong across chunk boundaries, repeats); every visit must deliver exactly the model's sorted distinct terms per requested doc-value field in request order.",
        "level_note": "Trusts the model ('a field has doc values in a segment iff any instance of the batch asked for them; merges preserve them per source segment').",
    },
    "C12": {
        "technique": "fault injection enumerated exhaustively inside generated cases: failing writer at every byte offset, close channel at every byte",
        "level_text": "Fault enumeration: for each generated persist/merge workload (several buffer sizes) every byte offset at which the destination writer starts failing is injected into Segment.WriteTo and Merger.WriteTo (must return a non-nil error), and the close channel is closed at every byte of the output (result must be ErrClosed or nil together with the complete, byte-identical file and the right byte count). About 10^5 injected faults per quick run. Both a writer that fails forever from byte k on and one whose single Write call crossing byte k fails are injected.",
        "level_note": "Offsets are exhaustive for files <= 8 KiB (2 KiB in the block family), boundary neighbourhoods + stride beyond; a dropped error in the middle of a merge that bufio's sticky error re-reports at Flush is not a violation and is not claimed.",
    },
    "C14": {
        "technique": "stateful metamorphic testing (rapid): rebuild a fixed target after generated histories of other builds, failed builds, GCs and concurrent builders; byte identity",
        "level_text": "Exploration: a target batch is built cold, then after each of up to 12 drawn actions (builds of other shapes and sizes, a failing build, two forced GCs, 2-8 concurrent builders) it is rebuilt and its persisted bytes must be identical to the first build. The verif hook samples whether the rebuild started from a recycled builder object. The thorough tier repeats the concurrent part under the race detector.",
        "level_note": "Go's map iteration order varies by itself between builds; pool reuse and goroutine schedules are sampled, not controlled.",
    },
    "C15": {
        "technique": "stateful property testing (rapid): snapshot/re-observe invariant over histories of reads, persists and merges; bitmap set and representation equality",
        "level_text": "Exploration: for 2-3 generated segments and caller-owned bitmaps (array containers of consecutive values, so an in-place RunOptimize is visible), after every action of a drawn history (exclusion walks, DocsMatchingTerms, visits, WriteTo, hooked and public merges with the bitmaps as drops) every segment's full observation and persisted bytes and every bitmap's members and serialised bytes must equal the snapshot taken before.",
        "level_note": "Trusts the observation walker and roaring serialisation as the representation witness.",
    },
    "C19": {
        "technique": "storage fault injection enumerated exhaustively inside generated cases: all reads fail from the k-th on, for every k, on a freshly loaded file-backed segment",
        "level_text": "Fault enumeration: for each generated file-backed segment and sequence of 3-10 read calls, the fault-free run counts the storage reads; then for every k the segment is loaded afresh and every ReadAt from the k-th on fails. Every call must return (watchdog with goroutine-dump confirmation of a mutex block inside ice), a call that saw a failing read must yield an error, an empty result or the correct result; before the first failure calls must be correct, afterwards a call served from caches must be correct or report an error / empty result (never a different non-empty result); nothing may panic. About 5*10^4 faulted calls per quick run. Iterators are called again after they returned an error; a >1024-document family keeps one doc-value reader across chunk boundaries.",
        "level_note": "Depends on the layout of bluge_segment_api.Data (self-tested); for read sequences longer than 300 reads the first 120 and last 20 fault points are exhaustive and the middle is strided.",
    },
    "C09": {
        "technique": "generated concurrent programs under the Go race detector with a sequential twin as oracle; generated nesting programs vs. the reference model",
        "level_text": "Exploration: (1) hundreds of generated concurrent programs per run - 2-8 goroutines released by a barrier, each a drawn list of read calls on one cold segment (lazy FST loading, stored and doc-value visits, DocsMatchingTerms, persist, a merge using the segment as input) with drawn Gosched points - must return exactly what a twin segment returns sequentially, in a -race binary where any DATA RACE report with an ice frame is a violation; (2) generated nesting programs (reads issued from inside stored-field / doc-value visitor callbacks, depth <= 3, other 128-document blocks) must deliver the model's values. Schedules are sampled, not enumerated.",
        "level_note": "Not claimed: absence of races on interleavings that did not run; liveness. A schedule-dependent failure cannot be shrunk by rapid; the driver stores the generated program and the race report as the replay artefact.",
    },
    "C10": {
        "technique": "differential property testing (rapid) against a frozen reference copy of the pinned sources, both directions on the same bytes, plus a golden corpus",
        "level_text": "Exploration: every generated batch/merge (small, 128-document-block and >1024-document families, several chunk modes) is written by the current code and by the frozen reference (harness/refice); the reference reader must observe in a current-written file exactly what the current reader observes (= the model), and the current reader must observe in a reference-written file exactly what the reference reader observes, also when such a file is fed to the current merger. A golden corpus of 11 reference-written files with stored reference observations is replayed on every run. Byte identity of the writers is recorded, not required.",
        "level_note": "Relative to the frozen reference and the corpus; the reference's own known defects (dictionary counts after 1-hit, zero-survivor files, short-record look-ahead, location field of repeated terms) are excluded by construction and counted.",
    },
}
