#!/bin/sh
# runs every property's quick (or $1) tier; prints one line per property
tier=${1:-quick}
rc=0
for p in $(python3 -c "import json;print(' '.join(c['property_id'] for c in json.load(open('/verif/MANIFEST.json'))['checks']))"); do
  out=$(./check $p $tier 2>&1); r=$?
  echo "$p rc=$r $(echo "$out" | grep -E '^(OK|VIOLATION|INCONCLUSIVE|KNOWN-FINDING)' | head -3 | tr '\n' ' ')"
  [ $r -ne 0 ] && rc=1
done
exit $rc
